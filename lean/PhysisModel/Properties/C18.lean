import PhysisModel.Proofs.C18Hdr
import PhysisModel.Proofs.C18Fmt
import PhysisModel.Proofs.C18Dat
import PhysisModel.Proofs.C18Arc
import PhysisModel.Proofs.C18Mtrl
import PhysisModel.Proofs.C18Shpk
import PhysisModel.Proofs.C18Skel
import PhysisModel.Proofs.C18Mdl
import PhysisModel.Proofs.C18Stm
import PhysisModel.Proofs.C18Avfx
import PhysisModel.Proofs.C18Lgb
import PhysisModel.Proofs.C18Havok
/-!
# C18 — damaged game data is rejected without crashing

For every entry point `e : Bytes → Res α` modelled here:

* `c18_<fmt>_total : ∀ b, ¬ faults (e b)` — no panic / abort for **any** byte string (no length
  bound); the model raises a fault exactly where the Rust code panics (index, slice, checked
  arithmetic, `unwrap`, `from_utf8().unwrap()`, `capacity overflow`, explicit `panic!`) and where a
  loop would not terminate (`fuel`);
* `c18_<fmt>_alloc : ∀ b, (e b).peak ≤ 64·|b| + 2^24` — every explicit, input-sized heap request
  made on the way is within the budget the harness' counting allocator enforces.

Both follow from `Good (budget |b|) (e b)`, which is assembled from the generic lemmas of
`Base/ParserALemmas.lean` ("every primitive is good, `bind` preserves it") plus one lemma per
user closure.  Helper lemmas live in `Proofs/C18*.lean`.
-/
namespace Physis.C18
open Physis Physis.A

/-! ## step 1: grammar-only / header-only formats -/

theorem c18_uld_total (b : Bytes) : ¬ faults (C18Hdr.uld b) := (PGood.run C18Hdr.uldHeader_good b).1
theorem c18_uld_alloc (b : Bytes) : (C18Hdr.uld b).peak ≤ 64 * b.length + 16777216 :=
  (PGood.run C18Hdr.uldHeader_good b).2

/-- the closure at the pinned commit (`String::from_utf8(x).unwrap()`) panics on `FF 00 00 00 …`
(witness of the defect repaired by `fixes/C18-01`) -/
theorem c18_uld_unfixed_witness :
    faults (C18Hdr.uldUnfixed [0xFF, 0, 0, 0, 0, 0, 0, 0, 0, 0, 0, 0, 0, 0, 0, 0]) :=
  faults_of_isFault (by decide)

theorem c18_sgb_total (b : Bytes) : ¬ faults (C18Hdr.sgb b) := (PGood.run C18Hdr.sgbHeader_good b).1
theorem c18_sgb_alloc (b : Bytes) : (C18Hdr.sgb b).peak ≤ 64 * b.length + 16777216 :=
  (PGood.run C18Hdr.sgbHeader_good b).2

theorem c18_scd_total (b : Bytes) : ¬ faults (C18Hdr.scd b) := (PGood.run C18Hdr.scdHeader_good b).1
theorem c18_scd_alloc (b : Bytes) : (C18Hdr.scd b).peak ≤ 64 * b.length + 16777216 :=
  (PGood.run C18Hdr.scdHeader_good b).2

theorem c18_hwc_total (b : Bytes) : ¬ faults (C18Hdr.hwc b) := (PGood.run C18Hdr.hwcBody_good b).1
theorem c18_hwc_alloc (b : Bytes) : (C18Hdr.hwc b).peak ≤ 64 * b.length + 16777216 :=
  (PGood.run C18Hdr.hwcBody_good b).2

theorem c18_iwc_total (b : Bytes) : ¬ faults (C18Hdr.iwc b) := (PGood.run C18Hdr.iwcHeader_good b).1
theorem c18_iwc_alloc (b : Bytes) : (C18Hdr.iwc b).peak ≤ 64 * b.length + 16777216 :=
  (PGood.run C18Hdr.iwcHeader_good b).2

theorem c18_tmb_total (b : Bytes) : ¬ faults (C18Hdr.tmb b) := (PGood.run C18Hdr.tmbHeader_good b).1
theorem c18_tmb_alloc (b : Bytes) : (C18Hdr.tmb b).peak ≤ 64 * b.length + 16777216 :=
  (PGood.run C18Hdr.tmbHeader_good b).2

theorem c18_skp_total (b : Bytes) : ¬ faults (C18Hdr.skp b) := (PGood.run C18Hdr.skpHeader_good b).1
theorem c18_skp_alloc (b : Bytes) : (C18Hdr.skp b).peak ≤ 64 * b.length + 16777216 :=
  (PGood.run C18Hdr.skpHeader_good b).2

theorem c18_schd_total (b : Bytes) : ¬ faults (C18Hdr.schd b) := (PGood.run C18Hdr.schdHeader_good b).1
theorem c18_schd_alloc (b : Bytes) : (C18Hdr.schd b).peak ≤ 64 * b.length + 16777216 :=
  (PGood.run C18Hdr.schdHeader_good b).2

theorem c18_phyb_total (b : Bytes) : ¬ faults (C18Hdr.phyb b) := (PGood.run C18Hdr.phybHeader_good b).1
theorem c18_phyb_alloc (b : Bytes) : (C18Hdr.phyb b).peak ≤ 64 * b.length + 16777216 :=
  (PGood.run C18Hdr.phybHeader_good b).2

theorem c18_pap_total (b : Bytes) : ¬ faults (C18Hdr.pap b) := (PGood.run C18Hdr.papHeader_good b).1
theorem c18_pap_alloc (b : Bytes) : (C18Hdr.pap b).peak ≤ 64 * b.length + 16777216 :=
  (PGood.run C18Hdr.papHeader_good b).2

/-- `SqPackDatabase::from_existing`, with `read_string` as repaired by C17's patch (lossy) -/
theorem c18_sqdb_total (b : Bytes) : ¬ faults (C18Hdr.sqdb b) := (PGood.run C18Hdr.sqdbFile_good b).1
theorem c18_sqdb_alloc (b : Bytes) : (C18Hdr.sqdb b).peak ≤ 64 * b.length + 16777216 :=
  (PGood.run C18Hdr.sqdbFile_good b).2

theorem c18_exh_total (b : Bytes) : ¬ faults (C18Hdr.exh b) := (PGood.run C18Hdr.exhFile_good b).1
theorem c18_exh_alloc (b : Bytes) : (C18Hdr.exh b).peak ≤ 64 * b.length + 16777216 :=
  (PGood.run C18Hdr.exhFile_good b).2

theorem c18_exd_total (b : Bytes) : ¬ faults (C18Hdr.exd b) := (PGood.run C18Hdr.exdFile_good b).1
theorem c18_exd_alloc (b : Bytes) : (C18Hdr.exd b).peak ≤ 64 * b.length + 16777216 :=
  (PGood.run C18Hdr.exdFile_good b).2

/-! ## step 2 (asset side): cmp, tex, EXD::read_row -/

theorem c18_cmp_total (b : Bytes) : ¬ faults (C18Fmt.cmp b) := (C18Fmt.cmp_good b).1
theorem c18_cmp_alloc (b : Bytes) : (C18Fmt.cmp b).peak ≤ 64 * b.length + 16777216 := (C18Fmt.cmp_good b).2
/-- pinned commit: `buffer.len() - 0x2A800` underflows on the empty buffer (repaired by `fixes/C18-02`) -/
theorem c18_cmp_unfixed_witness : faults (C18Fmt.cmpUnfixed []) := faults_of_isFault (by decide)

/-- `Texture::from_existing` (repaired by `fixes/C18-03`), including the `src/bcn` block decoders
(`block_decoder!`, `copy_block_buffer`) with every slice / index check they make -/
theorem c18_tex_total (b : Bytes) : ¬ faults (C18Fmt.tex b) := (C18Fmt.tex_good b).1
theorem c18_tex_alloc (b : Bytes) : (C18Fmt.tex b).peak ≤ 64 * b.length + 16777216 := (C18Fmt.tex_good b).2
/-- pinned commit: an 80-byte B8G8R8A8 header declaring 1×1×1 with no payload indexes `src[0]` -/
theorem c18_tex_unfixed_witness :
    faults (C18Fmt.texUnfixed ([0, 0, 0x80, 0, 0x50, 0x14, 0, 0, 1, 0, 1, 0, 1, 0, 1, 0] ++ List.replicate 64 0)) :=
  faults_of_isFault (by decide)

/-- `EXH::from_existing` + `EXD::from_existing` + `EXD::read_row` (repaired by `fixes/C18-04`),
for every header file, every page file and every row id; the budget is that of both files -/
theorem c18_exdrow_total (e d : Bytes) (id : Nat) : ¬ faults (C18Fmt.exdRow e d id) :=
  (C18Fmt.exdRow_good e d id).1
theorem c18_exdrow_alloc (e d : Bytes) (id : Nat) :
    (C18Fmt.exdRow e d id).peak ≤ 64 * (e.length + d.length) + 16777216 := (C18Fmt.exdRow_good e d id).2

/-! ## step 2 (archive side): dat reader, inflate life-cycle -/

/-- `SqPackData::read_from_offset` (standard, model and texture entries; `read_data_block`), repaired
by `fixes/C18-06/07`: for every dat file, every offset and **every behaviour of `inflate`** -/
theorem c18_dat_total (infl : Bytes → Nat → Bool) (w : Bytes) (offset : Nat) :
    ¬ faults (C18Dat.readFromOffset infl w offset) := (C18Dat.readFromOffset_good infl w offset).1
theorem c18_dat_alloc (infl : Bytes → Nat → Bool) (w : Bytes) (offset : Nat) :
    (C18Dat.readFromOffset infl w offset).peak ≤ 64 * w.length + 16777216 :=
  (C18Dat.readFromOffset_good infl w offset).2

/-- every path through `no_header_decompress` (repaired by `fixes/C18-05`) that initialises the
inflate stream also ends it, whatever `inflate` returns -/
theorem c18_inflate_balanced (initOk streamEnd : Bool) (h : initOk = true) :
    ((C18Dat.decompressTrace initOk streamEnd).1.count .end_ = 1) ∧
    ((C18Dat.decompressTrace initOk streamEnd).1.count .init = 1) := by
  subst h; cases streamEnd <;> decide
/-- the pinned commit leaks the stream state when `inflate` does not reach `Z_STREAM_END` -/
theorem c18_inflate_unfixed_witness :
    (C18Dat.decompressTraceUnfixed true false).1.count .end_ = 0 := by decide
example : (C18Dat.decompressTrace true false).1 = [.init, .inflate, .end_] := by decide

/-- `SqPackIndex::from_existing`: the index grammar, for every file content -/
theorem c18_index_total (w : Bytes) : ¬ faults (C18Arc.index w) := (PGood.run C18Arc.indexFile_good w).1
theorem c18_index_alloc (w : Bytes) : (C18Arc.index w).peak ≤ 64 * w.length + 16777216 :=
  (PGood.run C18Arc.indexFile_good w).2
/-- the slicing in `calculate_hash` (`exists`, `find_entry`), repaired by `fixes/C18-08`: every
lower-cased path, with or without a folder -/
theorem c18_index_hash_total (path : Bytes) : ¬ faults (C18Arc.hashSplit path) :=
  (C18Arc.hashSplit_good 0 path).1
/-- pinned commit: `panic!` for a path without `/` (`"a"`) -/
theorem c18_index_hash_unfixed_witness : faults (C18Arc.hashSplitUnfixed [0x61]) :=
  faults_of_isFault (by decide)

/-- `SqPackIndex::exists` / `find_entry` on a parsed index, for every ASCII path -/
theorem c18_index_exists_total (ix : C18Arc.Index) (path : Bytes) : ¬ faults (C18Arc.existsAscii ix path) :=
  (C18Arc.existsAscii_good 0 ix path).1

/-- the `parse_repository_category(path).unwrap()` in `GameData::get_dat_file` is unreachable: `extract`
only gets there after `find_entry` has evaluated the same pure call with `?`.  With a dat reader that
is good (`c18_dat_total`, `c18_dat_alloc`), the whole flow of `extract` is. -/
theorem c18_gamedata_extract_flow {R E D : Type} (B : Nat) (parse : Option R) (findEntry : R → Option E)
    (openDat : R → E → Option D) (read : D → E → Res Unit) (hr : ∀ d e, Good B (read d e)) :
    Good B (C18Arc.extractFlow parse findEntry openDat read) :=
  C18Arc.extractFlow_good B parse findEntry openDat read hr
example : Good 0 (C18Arc.extractFlow (some 1) (fun _ => some 2) (fun _ _ => some 3)
    (fun _ _ => (Res.ok () : Res Unit))) :=
  c18_gamedata_extract_flow 0 _ _ _ _ (fun _ _ => good_ok _ _)

/-- repository discovery (`reload_repositories` + `from_existing_expansion`), repaired by
`fixes/C18-09`: every directory name (any bytes) is a repository or is skipped -/
theorem c18_repo_total (name : Bytes) : ¬ faults (C18Arc.expansionNumber name) :=
  (C18Arc.expansionNumber_good 0 name).1
/-- pinned commit: the one-letter directory `a` under `sqpack` panics in `name[2..3]`, and a
directory whose name is not UTF-8 (`FF`) in `to_str().unwrap()` -/
theorem c18_repo_unfixed_witness :
    faults (C18Arc.expansionNumberUnfixed [0x61]) ∧ faults (C18Arc.expansionNumberUnfixed [0xFF]) :=
  ⟨faults_of_isFault (by decide), faults_of_isFault (by decide)⟩
example : (C18Arc.expansionNumber [0x65, 0x78, 0x31]).isOk = true := by decide

/-- non-vacuity: the models accept well-formed headers (a 16-byte `uldh`/`0100` header parses) -/
example : (C18Hdr.uld [0x75, 0x6c, 0x64, 0x68, 0x30, 0x31, 0x30, 0x30, 1, 0, 0, 0, 2, 0, 0, 0]).isOk = true := by
  decide
example : (C18Hdr.uld [0x75, 0x6c, 0x64, 0x68, 0x30, 0x31, 0x30, 0x30, 1, 0, 0, 0, 2, 0, 0]).isOk = false := by
  decide

/-! ## part `mat`: `Material::from_existing`, `ShaderPackage::from_existing`, `ShaderPackage::find_node`

The models (`Model/C18Mtrl.lean`, `Model/C18Shpk.lean`) mirror the code with `fixes/C18-30…35`
applied; the `…Pinned` variants keep the panicking / over-reserving operations of the pinned commit
and are used only by the `…_pinned_witness` theorems below. -/

theorem c18_mtrl_total (b : Bytes) : ¬ faults (C18Mtrl.mtrl b) := (C18Mtrl.mtrl_good b).1
theorem c18_mtrl_alloc (b : Bytes) : (C18Mtrl.mtrl b).peak ≤ 64 * b.length + 16777216 :=
  (C18Mtrl.mtrl_good b).2

/-- pinned commit, `mtrl.rs:429`: `x[0..4]` on an empty additional-data block (16 zero bytes) -/
theorem c18_mtrl_pinned_witness_flags : faults (C18Mtrl.mtrlPinned [0, 0, 0, 0, 0, 0, 0, 0, 0, 0, 0, 0, 0, 0, 0, 0]) :=
  faults_of_isFault (by decide)
/-- pinned commit, `mtrl.rs:519`: `strings[0]` on an empty string table -/
theorem c18_mtrl_pinned_witness_strings : faults (C18Mtrl.mtrlPinned [0, 0, 0, 0, 0, 0, 0, 0, 0, 0, 0, 0, 0, 0, 0, 4, 0, 0, 0, 0, 0, 0, 0, 0, 0, 0, 0, 0, 0, 0, 0, 0]) :=
  faults_of_isFault (by decide)
/-- pinned commit, `mtrl.rs:533`: a one-float constant with no shader values -/
theorem c18_mtrl_pinned_witness_constant : faults (C18Mtrl.mtrlPinned [0, 0, 0, 0, 0, 0, 0, 0, 1, 0, 0, 0, 0, 0, 0, 4, 0, 0, 0, 0, 0, 0, 0, 0, 0, 1, 0, 0, 0, 0, 0, 0, 0, 0, 0, 0, 0, 0, 0, 4, 0]) :=
  faults_of_isFault (by decide)

theorem c18_shpk_total (b : Bytes) : ¬ faults (C18Shpk.shpk b) := (C18Shpk.shpk_good b).1
theorem c18_shpk_alloc (b : Bytes) : (C18Shpk.shpk b).peak ≤ 64 * b.length + 16777216 :=
  (C18Shpk.shpk_good b).2

/-- `from_existing(b).and_then(|p| p.find_node(sel))`, every selector -/
theorem c18_shpknode_total (b : Bytes) (sel : Nat) : ¬ faults (C18Shpk.shpknode b sel) :=
  (C18Shpk.shpknode_good b sel).1
theorem c18_shpknode_alloc (b : Bytes) (sel : Nat) :
    (C18Shpk.shpknode b sel).peak ≤ 64 * b.length + 16777216 :=
  (C18Shpk.shpknode_good b sel).2

/-- pinned commit, `shpk.rs:147`: `from_utf8(..).unwrap()` on the format tag `FF 00 00 00` -/
theorem c18_shpk_pinned_witness_utf8 : faults (C18Shpk.shpkPinned [83, 104, 80, 107, 0, 0, 0, 0, 255, 0, 0, 0]) :=
  faults_of_isFault (by decide)
/-- pinned commit, `Shader.bytecode`: one pixel shader with `data_size = 0xFFFFFFFF` in an 88-byte
file makes binrw reserve 4 GiB before reading -/
theorem c18_shpk_pinned_witness_alloc :
    ¬ (C18Shpk.shpkPinned [83, 104, 80, 107, 0, 0, 0, 0, 68, 88, 49, 49, 0, 0, 0, 0, 0, 0, 0, 0, 0, 0, 0, 0, 0, 0, 0, 0, 1, 0, 0, 0, 0, 0, 0, 0, 0, 0, 0, 0, 0, 0, 0, 0, 0, 0, 0, 0, 0, 0, 0, 0, 0, 0, 0, 0, 0, 0, 0, 0, 0, 0, 0, 0, 0, 0, 0, 0, 0, 0, 0, 0, 0, 0, 0, 0, 255, 255, 255, 255, 0, 0, 0, 0, 0, 0, 0, 0]).peak ≤ 64 * 88 + 16777216 := by
  decide
/-- pinned commit, `shpk.rs:238`: an alias to node 0 in a package without nodes -/
theorem c18_shpknode_pinned_witness : faults (C18Shpk.shpknodePinned [83, 104, 80, 107, 0, 0, 0, 0, 68, 88, 49, 49, 0, 0, 0, 0, 0, 0, 0, 0, 0, 0, 0, 0, 0, 0, 0, 0, 0, 0, 0, 0, 0, 0, 0, 0, 0, 0, 0, 0, 0, 0, 0, 0, 0, 0, 0, 0, 0, 0, 0, 0, 0, 0, 0, 0, 0, 0, 0, 0, 0, 0, 0, 0, 0, 0, 0, 0, 1, 0, 0, 0, 0, 0, 0, 0, 0, 0, 0, 0, 0, 0, 0, 0, 0, 0, 0, 0] 0) :=
  faults_of_isFault (by decide)

/-- non-vacuity: the smallest well-formed material and shader package parse -/
example : (C18Mtrl.mtrl [0, 0, 0, 0, 0, 0, 0, 0, 1, 0, 0, 0, 0, 0, 0, 4, 0, 0, 0, 0, 0, 0, 0, 0, 0, 0, 0, 0, 0, 0, 0, 0, 0]).isOk = true := by decide
example : (C18Shpk.shpk [83, 104, 80, 107, 0, 0, 0, 0, 68, 88, 49, 49, 0, 0, 0, 0, 0, 0, 0, 0, 0, 0, 0, 0, 0, 0, 0, 0, 0, 0, 0, 0, 0, 0, 0, 0, 0, 0, 0, 0, 0, 0, 0, 0, 0, 0, 0, 0, 0, 0, 0, 0, 0, 0, 0, 0, 0, 0, 0, 0, 0, 0, 0, 0, 0, 0, 0, 0, 0, 0, 0, 0, 0, 0, 0, 0, 0, 0, 0, 0]).isOk = true := by decide
example : (C18Shpk.shpknode [83, 104, 80, 107, 0, 0, 0, 0, 68, 88, 49, 49, 0, 0, 0, 0, 0, 0, 0, 0, 0, 0, 0, 0, 0, 0, 0, 0, 0, 0, 0, 0, 0, 0, 0, 0, 0, 0, 0, 0, 0, 0, 0, 0, 0, 0, 0, 0, 0, 0, 0, 0, 0, 0, 0, 0, 0, 0, 0, 0, 0, 0, 0, 0, 0, 0, 0, 0, 1, 0, 0, 0, 0, 0, 0, 0, 0, 0, 0, 0, 0, 0, 0, 0, 0, 0, 0, 0] 0).isOk = false := by decide

/-! ## part `skel`: pbd (+ `get_deform_matrices`), tera -/

/-- `PreBoneDeformer::from_existing` (name reads repaired by `fixes/C18-40`) -/
theorem c18_pbd_total (b : Bytes) : ¬ faults (C18Skel.pbd b) := (C18Skel.pbd_good b).1
theorem c18_pbd_alloc (b : Bytes) : (C18Skel.pbd b).peak ≤ 64 * b.length + 16777216 := (C18Skel.pbd_good b).2

/-- `PreBoneDeformer::from_existing` + `get_deform_matrices(from, to)` (repaired by `fixes/C18-41/42`),
for every file and every pair of body ids.  "No fault" includes `Fault.fuel`: the walk along the
parent links is given `links.len() + 1` rounds and never uses them up — it terminates on every link
table, cyclic or not. -/
theorem c18_pbddeform_total (b : Bytes) (frm to : Nat) : ¬ faults (C18Skel.pbdDeform b frm to) :=
  (C18Skel.pbdDeform_good b frm to).1
theorem c18_pbddeform_alloc (b : Bytes) (frm to : Nat) :
    (C18Skel.pbdDeform b frm to).peak ≤ 64 * b.length + 16777216 := (C18Skel.pbdDeform_good b frm to).2

/-- the walk itself, for every header whose deformers have `bone_count` names and matrices (which
`from_existing` guarantees: `C18Skel.header_post`), every start and every fuel above
`links.len() - steps`: no fault, in particular no exhaustion of the fuel -/
theorem c18_pbd_walk_terminates (h : C18Skel.Header) (hw : C18Skel.HeaderWF h) (to : Nat)
    (item : C18Skel.Item) (next : C18Skel.Link) (hd : C18Skel.DeformerWF item.deformer) :
    ¬ faults (C18Skel.walk h to (h.links.size + 1) item next 0) :=
  (C18Skel.walk_good h hw to 0 _ item next 0 hd (by omega) (by omega)).1

/-- pinned commit: one item, one bone whose name offset (255) lies beyond the end of the file -/
theorem c18_pbd_unfixed_witness :
    faults (C18Skel.pbdUnfixed [1, 0, 0, 0, 0x65, 0, 0, 0, 0x18, 0, 0, 0, 0, 0, 0, 0,
      0xff, 0xff, 0xff, 0xff, 0, 0, 0, 0, 1, 0, 0, 0, 0xff, 0]) :=
  faults_of_isFault (by decide)

/-- a header with one item (no bones) and one link that is its own parent -/
def pbdSelfParent : C18Skel.Header := ⟨#[⟨101, 0, ⟨0, 0, 0⟩⟩], #[⟨0, 0, 0⟩]⟩

/-- pinned commit: on a self-parent link the walk uses up **every** amount of fuel (it never
terminates), … -/
theorem c18_pbddeform_unfixed_cycle_witness (fuel : Nat) :
    faults (C18Skel.getDeformMatricesUnfixed fuel pbdSelfParent 101 999) := by
  refine ⟨.fuel, ?_⟩
  have hw : ∀ n, (C18Skel.walkUnfixed pbdSelfParent 999 n ⟨101, 0, ⟨0, 0, 0⟩⟩ ⟨0, 0, 0⟩).out = .fault .fuel := by
    intro n
    induction n with
    | zero => rfl
    | succ n ih => unfold C18Skel.walkUnfixed; exact ih
  exact hw fuel
/-- the hypotheses of `c18_pbd_walk_terminates` on that header -/
example : ¬ faults (C18Skel.walk pbdSelfParent 999 (pbdSelfParent.links.size + 1) ⟨101, 0, ⟨0, 0, 0⟩⟩ ⟨0, 0, 0⟩ 0) :=
  c18_pbd_walk_terminates pbdSelfParent
    (by intro it hit; simp [pbdSelfParent] at hit; subst hit; exact ⟨rfl, rfl⟩) 999 _ _ ⟨rfl, rfl⟩
/-- … the repaired walk answers `None`, … -/
example : (C18Skel.getDeformMatrices pbdSelfParent 101 999).cls = "none" := by decide
/-- … and that header is what the 28-byte witness file parses to -/
example : (C18Skel.pbd [1, 0, 0, 0, 0x65, 0, 0, 0, 0x18, 0, 0, 0, 0, 0, 0, 0,
    0, 0, 0xff, 0xff, 0, 0, 0, 0, 0, 0, 0, 0]).out = .ok pbdSelfParent := by rfl

/-- pinned commit: `links[item.link_index as usize]` with `link_index = 1` and one link -/
theorem c18_pbddeform_unfixed_index_witness :
    faults (C18Skel.getDeformMatricesUnfixed 2 ⟨#[⟨101, 1, ⟨0, 0, 0⟩⟩], #[⟨0xFFFF, 0, 0⟩]⟩ 101 999) :=
  faults_of_isFault (by decide)

/-- `Terrain::from_existing` (no repair needed: `positions` has exactly `plate_count` elements) -/
theorem c18_tera_total (b : Bytes) : ¬ faults (C18Skel.tera b) := (C18Skel.tera_good b).1
theorem c18_tera_alloc (b : Bytes) : (C18Skel.tera b).peak ≤ 64 * b.length + 16777216 := (C18Skel.tera_good b).2

/-- non-vacuity: a 56-byte terrain with one plate parses; the chain file of the generator walks -/
example : (C18Skel.tera ([3, 0, 0, 1, 1, 0, 0, 0, 128, 0, 0, 0] ++ List.replicate 40 0 ++ [1, 0, 2, 0])).isOk = true := by
  decide
/-! ## part `mdl`: `MDL::from_existing` (binrw stage + the hand-written level-of-detail / mesh /
vertex / index / sub-mesh / shape / stream loops), repaired by `fixes/C18-50 … C18-59` -/

theorem c18_mdl_total (b : Bytes) : ¬ faults (C18Mdl.mdl b) := (C18Mdl.mdl_good b).1
theorem c18_mdl_alloc (b : Bytes) : (C18Mdl.mdl b).peak ≤ 64 * b.length + 16777216 := (C18Mdl.mdl_good b).2
/-- the binrw stage on its own (`ModelFileHeader::read` + `ModelData::read_args`) -/
theorem c18_mdl_header_total (b : Bytes) : ¬ faults (C18Mdl.mdlHeader b) := (C18Mdl.mdlHeader_good b).1
theorem c18_mdl_header_alloc (b : Bytes) : (C18Mdl.mdlHeader b).peak ≤ 64 * b.length + 16777216 :=
  (C18Mdl.mdlHeader_good b).2

/-- witness of the defect repaired by `fixes/C18-50`: 18 elements before the end marker make the
declaration reader of the pinned commit underflow `17*8 - (len+1)*8` -/
theorem c18_mdl_declaration_unfixed_witness :
    faults (P.run C18Mdl.declarationUnfixed (List.replicate 144 0 ++ [255, 0, 0, 0, 0, 0, 0, 0])) :=
  faults_of_isFault (by decide +kernel)
/-- the repaired reader rejects the same input -/
example : (P.run C18Mdl.declaration (List.replicate 144 0 ++ [255, 0, 0, 0, 0, 0, 0, 0])).cls = "none" := by
  decide +kernel
/-- witness of the defect repaired by `fixes/C18-52`: an unterminated name runs off the string block -/
theorem c18_mdl_name_scan_unfixed_witness : faults (C18Mdl.nameScanUnfixed [0x61, 0x62] 3 0) :=
  faults_of_isFault (by decide +kernel)
example : (C18Mdl.readName [0x61, 0x62] 0).cls = "none" := by decide +kernel
example : (C18Mdl.readName [0x61, 0x62, 0] 0).cls = "some" := by decide +kernel
/-! ## part `pbc`: the panic-by-construction readers that a small repair makes total (stm, avfx) -/

/-- `StainingTemplate::from_existing` (repaired by `fixes/C18-60`) -/
theorem c18_stm_total (b : Bytes) : ¬ faults (C18Stm.fromExisting b) := (C18Stm.fromExisting_good b).1
theorem c18_stm_alloc (b : Bytes) : (C18Stm.fromExisting b).peak ≤ 64 * b.length + 16777216 :=
  (C18Stm.fromExisting_good b).2
/-- pinned commit: the empty buffer hits `StmHeader::read(..).unwrap()`; a header declaring one entry
whose five "ends" are missing hits `read_le::<u16>().unwrap()` -/
theorem c18_stm_unfixed_witness :
    faults (C18Stm.fromExistingUnfixed []) ∧
    faults (C18Stm.fromExistingUnfixed [0, 0, 0, 0, 1, 0, 0, 0, 100, 0, 0, 0]) :=
  ⟨faults_of_isFault (by decide), faults_of_isFault (by decide)⟩
example : (C18Stm.fromExisting [0, 0, 0, 0, 1, 0, 0, 0, 100, 0, 0, 0, 1, 0, 2, 0, 3, 0, 4, 0, 5, 0]).isOk = true := by
  decide

/-- `Avfx::from_existing` (repaired by `fixes/C18-61`, `C18-62`): terminates (the loop consumes at
least the 4-byte tag per iteration), never panics, allocates nothing input-sized -/
theorem c18_avfx_total (b : Bytes) : ¬ faults (C18Avfx.fromExisting b) := (C18Avfx.fromExisting_good b).1
theorem c18_avfx_alloc (b : Bytes) : (C18Avfx.fromExisting b).peak ≤ 64 * b.length + 16777216 :=
  (C18Avfx.fromExisting_good b).2
/-- pinned commit: a header announcing more data than present hits `AvfxBlock::read(..).unwrap()`;
an `nCcS` (scheduler count) block hits `todo!()`; a `reV\0` block of size 0 underflows
`block.size - read_bytes` -/
theorem c18_avfx_unfixed_witness :
    faults (C18Avfx.fromExistingUnfixed [0x58, 0x46, 0x56, 0x41, 0xFF, 0xFF, 0xFF, 0x7F]) ∧
    faults (C18Avfx.fromExistingUnfixed
      [0x58, 0x46, 0x56, 0x41, 16, 0, 0, 0, 0x6E, 0x43, 0x63, 0x53, 4, 0, 0, 0, 1, 0, 0, 0]) ∧
    faults (C18Avfx.fromExistingUnfixed
      [0x58, 0x46, 0x56, 0x41, 16, 0, 0, 0, 0x72, 0x65, 0x56, 0x00, 0, 0, 0, 0, 1, 0, 0, 0]) :=
  ⟨faults_of_isFault (by decide), faults_of_isFault (by decide), faults_of_isFault (by decide)⟩
example : (C18Avfx.fromExisting
    [0x58, 0x46, 0x56, 0x41, 12, 0, 0, 0, 0x72, 0x65, 0x56, 0x00, 4, 0, 0, 0, 1, 0, 0, 0]).isOk = true := by decide

/-- `LayerGroup::from_existing` (repaired by `fixes/C18-65`, `C18-68`, `C18-69`): every header, heap
string, referenced list, offset table and instance object (all 29 variants) for every byte string;
the offset tables are the only input-sized requests and are checked against the remaining input -/
theorem c18_lgb_total (b : Bytes) : ¬ faults (C18Lgb.fromExisting b) := (C18Lgb.fromExisting_good b).1
theorem c18_lgb_alloc (b : Bytes) : (C18Lgb.fromExisting b).peak ≤ 64 * b.length + 16777216 :=
  (C18Lgb.fromExisting_good b).2

/-- non-vacuity: the repository's `resources/tests/empty_planlive.lgb` is accepted, its first 44 bytes
(chunk name without terminator) are rejected -/
example : (C18Lgb.fromExisting [76, 71, 66, 49, 45, 0, 0, 0, 1, 0, 0, 0, 76, 71, 80, 49, 24, 0, 0, 0, 5, 1, 0, 0,
    16, 0, 0, 0, 16, 0, 0, 0, 0, 0, 0, 0, 80, 108, 97, 110, 76, 105, 118, 101, 0]).isOk = true := by decide
example : (C18Lgb.fromExisting [76, 71, 66, 49, 45, 0, 0, 0, 1, 0, 0, 0, 76, 71, 80, 49, 24, 0, 0, 0, 5, 1, 0, 0,
    16, 0, 0, 0, 16, 0, 0, 0, 0, 0, 0, 0, 80, 108, 97, 110, 76, 105, 118, 101]).isOk = false := by decide

/-! ## part `havok`: skeletons (SKLB container + Havok binary tag-file reader, `fixes/C18-70..78`) -/

/-- the valid two-bone skeleton file of `lib/c18b_havok_witness.py` (`valid(2)`) -/
def sklbTwoBones : Bytes :=
  [98, 108, 107, 115, 48, 48, 51, 49, 36, 0, 0, 0, 36, 0, 0, 0, 0, 0, 0, 0, 101, 0, 0, 0, 0, 0, 0, 0, 0, 0,
    0, 0, 0, 0, 0, 0, 30, 13, 176, 202, 206, 250, 17, 208, 2, 6, 4, 64, 104, 107, 82, 111, 111, 116, 76, 101,
    118, 101, 108, 67, 111, 110, 116, 97, 105, 110, 101, 114, 78, 97, 109, 101, 100, 86, 97, 114, 105, 97,
    110, 116, 0, 0, 6, 8, 110, 97, 109, 101, 20, 18, 99, 108, 97, 115, 115, 78, 97, 109, 101, 20, 14, 118, 97,
    114, 105, 97, 110, 116, 16, 36, 104, 107, 82, 101, 102, 101, 114, 101, 110, 99, 101, 100, 79, 98, 106,
    101, 99, 116, 4, 40, 104, 107, 82, 111, 111, 116, 76, 101, 118, 101, 108, 67, 111, 110, 116, 97, 105, 110,
    101, 114, 0, 0, 2, 26, 110, 97, 109, 101, 100, 86, 97, 114, 105, 97, 110, 116, 115, 50, 64, 104, 107, 82,
    111, 111, 116, 76, 101, 118, 101, 108, 67, 111, 110, 116, 97, 105, 110, 101, 114, 78, 97, 109, 101, 100,
    86, 97, 114, 105, 97, 110, 116, 4, 14, 104, 107, 97, 66, 111, 110, 101, 0, 0, 4, 8, 110, 97, 109, 101, 20,
    30, 108, 111, 99, 107, 84, 114, 97, 110, 115, 108, 97, 116, 105, 111, 110, 2, 4, 22, 104, 107, 97, 83,
    107, 101, 108, 101, 116, 111, 110, 0, 0, 8, 8, 110, 97, 109, 101, 20, 10, 98, 111, 110, 101, 115, 50, 14,
    104, 107, 97, 66, 111, 110, 101, 26, 112, 97, 114, 101, 110, 116, 73, 110, 100, 105, 99, 101, 115, 36, 26,
    114, 101, 102, 101, 114, 101, 110, 99, 101, 80, 111, 115, 101, 44, 4, 42, 104, 107, 97, 65, 110, 105, 109,
    97, 116, 105, 111, 110, 67, 111, 110, 116, 97, 105, 110, 101, 114, 0, 0, 4, 18, 115, 107, 101, 108, 101,
    116, 111, 110, 115, 48, 22, 104, 107, 97, 83, 107, 101, 108, 101, 116, 111, 110, 16, 98, 105, 110, 100,
    105, 110, 103, 115, 48, 38, 104, 107, 97, 65, 110, 105, 109, 97, 116, 105, 111, 110, 66, 105, 110, 100,
    105, 110, 103, 8, 4, 1, 2, 7, 52, 77, 101, 114, 103, 101, 100, 32, 65, 110, 105, 109, 97, 116, 105, 111,
    110, 32, 67, 111, 110, 116, 97, 105, 110, 101, 114, 42, 104, 107, 97, 65, 110, 105, 109, 97, 116, 105,
    111, 110, 67, 111, 110, 116, 97, 105, 110, 101, 114, 4, 8, 10, 3, 2, 6, 0, 8, 8, 15, 16, 115, 107, 101,
    108, 101, 116, 111, 110, 4, 1, 14, 110, 95, 98, 111, 110, 101, 48, 14, 110, 95, 98, 111, 110, 101, 49, 4,
    8, 3, 0, 4, 0, 0, 0, 0, 0, 0, 128, 62, 0, 0, 0, 63, 0, 0, 64, 63, 0, 0, 128, 63, 0, 0, 160, 63, 0, 0, 192,
    63, 0, 0, 224, 63, 0, 0, 0, 64, 0, 0, 16, 64, 0, 0, 32, 64, 0, 0, 48, 64, 0, 0, 0, 0, 0, 0, 128, 62, 0, 0,
    0, 63, 0, 0, 64, 63, 0, 0, 128, 63, 0, 0, 160, 63, 0, 0, 192, 63, 0, 0, 224, 63, 0, 0, 0, 64, 0, 0, 16,
    64, 0, 0, 32, 64, 0, 0, 48, 64, 14]

/-- `Skeleton::from_existing` (repaired by `fixes/C18-64`, `C18-70..76`) for every byte string: no panic
site is left on the way (every read, table access and conversion answers `None`), the tag loop
terminates (`C18Havok.tagStep_consumes`: the fuel `remaining + 1` is never used up), packed integers
take at most six bytes and struct arrays nest at most `MAX_ARRAY_DEPTH` deep (both structural) -/
theorem c18_sklb_total (b : Bytes) : ¬ faults (C18Havok.fromExisting b) := (C18Havok.fromExisting_good b).1
/-- the requests whose size is read from the file (string literals) are made after the bytes were
found to be present -/
theorem c18_sklb_alloc (b : Bytes) : (C18Havok.fromExisting b).peak ≤ 64 * b.length + 16777216 :=
  (C18Havok.fromExisting_good b).2
/-- the tag loop alone, from any reader state and cursor: never out of fuel -/
theorem c18_sklb_tagloop_terminates (hs : C18Havok.HSt) (w : Bytes) (s : St) (h : s.rest.length ≤ w.length) :
    ¬ faults (C18Havok.loopSt C18Havok.tagStep hs w s) :=
  ((C18Havok.PGood.loopSt hs (fun a => (C18Havok.tagStep_pg a).1) C18Havok.tagStep_consumes) w s h).1.1
example : ¬ faults (C18Havok.loopSt C18Havok.tagStep (C18Havok.HSt.init 3) [2, 2, 7] ⟨0, [2, 2, 7]⟩) :=
  c18_sklb_tagloop_terminates _ _ _ (by decide)
/-- pinned commit: `read_packed_int` on an exhausted reader indexes past the data (`ByteReader::read`),
and a sixth byte shifts a `u32` by 34 (overflow panic in the profile the tests use) -/
theorem c18_sklb_unfixed_witness :
    faults (P.run C18Havok.packedIntUnfixed []) ∧
    faults (P.run C18Havok.packedIntUnfixed [0x86, 0x80, 0x80, 0x80, 0x80, 0x80, 0x00]) ∧
    (P.run C18Havok.packedInt [0x86, 0x80, 0x80, 0x80, 0x80, 0x80, 0x00]).isFault = false :=
  ⟨faults_of_isFault (by decide), faults_of_isFault (by decide), by decide⟩
/-- non-vacuity: a complete two-bone file is accepted with its two bones; without its last byte (the
`FileEnd` tag) it is rejected -/
example : (match (C18Havok.fromExisting sklbTwoBones).out with | .ok (n, _) => n == 2 | _ => false) = true := by
  decide +kernel
example : (C18Havok.fromExisting sklbTwoBones.dropLast).isOk = false := by decide +kernel

end Physis.C18
