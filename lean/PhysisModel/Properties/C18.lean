import PhysisModel.Proofs.C18Hdr
import PhysisModel.Proofs.C18Fmt
import PhysisModel.Proofs.C18Dat
import PhysisModel.Proofs.C18Stm
import PhysisModel.Proofs.C18Avfx
import PhysisModel.Proofs.C18Lgb
/-!
# C18 — damaged game data is rejected without crashing

For every entry point `e : Bytes → Res α` modelled here:

* `c18_<fmt>_total : ∀ b, ¬ faults (e b)` — no panic / abort for **any** byte string (no length
  bound); the model raises a fault exactly where the Rust code panics (index, slice, checked
  arithmetic, `unwrap`, `from_utf8().unwrap()`, `capacity overflow`, explicit `panic!`) and where a
  loop would not terminate (`fuel`);
* `c18_<fmt>_alloc : ∀ b, (e b).peak ≤ 64·|b| + 2^24` — every explicit, input-sized heap request
  made on the way is within the budget the harness' counting allocator enforces.

Both follow from `Good (budget |b|) (e b)`, which is assembled from the generic lemmas of
`Base/ParserALemmas.lean` ("every primitive is good, `bind` preserves it") plus one lemma per
user closure.  Helper lemmas live in `Proofs/C18*.lean`.
-/
namespace Physis.C18
open Physis Physis.A

/-! ## step 1: grammar-only / header-only formats -/

theorem c18_uld_total (b : Bytes) : ¬ faults (C18Hdr.uld b) := (PGood.run C18Hdr.uldHeader_good b).1
theorem c18_uld_alloc (b : Bytes) : (C18Hdr.uld b).peak ≤ 64 * b.length + 16777216 :=
  (PGood.run C18Hdr.uldHeader_good b).2

/-- the closure at the pinned commit (`String::from_utf8(x).unwrap()`) panics on `FF 00 00 00 …`
(witness of the defect repaired by `fixes/C18-01`) -/
theorem c18_uld_unfixed_witness :
    faults (C18Hdr.uldUnfixed [0xFF, 0, 0, 0, 0, 0, 0, 0, 0, 0, 0, 0, 0, 0, 0, 0]) :=
  faults_of_isFault (by decide)

theorem c18_sgb_total (b : Bytes) : ¬ faults (C18Hdr.sgb b) := (PGood.run C18Hdr.sgbHeader_good b).1
theorem c18_sgb_alloc (b : Bytes) : (C18Hdr.sgb b).peak ≤ 64 * b.length + 16777216 :=
  (PGood.run C18Hdr.sgbHeader_good b).2

theorem c18_scd_total (b : Bytes) : ¬ faults (C18Hdr.scd b) := (PGood.run C18Hdr.scdHeader_good b).1
theorem c18_scd_alloc (b : Bytes) : (C18Hdr.scd b).peak ≤ 64 * b.length + 16777216 :=
  (PGood.run C18Hdr.scdHeader_good b).2

theorem c18_hwc_total (b : Bytes) : ¬ faults (C18Hdr.hwc b) := (PGood.run C18Hdr.hwcBody_good b).1
theorem c18_hwc_alloc (b : Bytes) : (C18Hdr.hwc b).peak ≤ 64 * b.length + 16777216 :=
  (PGood.run C18Hdr.hwcBody_good b).2

theorem c18_iwc_total (b : Bytes) : ¬ faults (C18Hdr.iwc b) := (PGood.run C18Hdr.iwcHeader_good b).1
theorem c18_iwc_alloc (b : Bytes) : (C18Hdr.iwc b).peak ≤ 64 * b.length + 16777216 :=
  (PGood.run C18Hdr.iwcHeader_good b).2

theorem c18_tmb_total (b : Bytes) : ¬ faults (C18Hdr.tmb b) := (PGood.run C18Hdr.tmbHeader_good b).1
theorem c18_tmb_alloc (b : Bytes) : (C18Hdr.tmb b).peak ≤ 64 * b.length + 16777216 :=
  (PGood.run C18Hdr.tmbHeader_good b).2

theorem c18_skp_total (b : Bytes) : ¬ faults (C18Hdr.skp b) := (PGood.run C18Hdr.skpHeader_good b).1
theorem c18_skp_alloc (b : Bytes) : (C18Hdr.skp b).peak ≤ 64 * b.length + 16777216 :=
  (PGood.run C18Hdr.skpHeader_good b).2

theorem c18_schd_total (b : Bytes) : ¬ faults (C18Hdr.schd b) := (PGood.run C18Hdr.schdHeader_good b).1
theorem c18_schd_alloc (b : Bytes) : (C18Hdr.schd b).peak ≤ 64 * b.length + 16777216 :=
  (PGood.run C18Hdr.schdHeader_good b).2

theorem c18_phyb_total (b : Bytes) : ¬ faults (C18Hdr.phyb b) := (PGood.run C18Hdr.phybHeader_good b).1
theorem c18_phyb_alloc (b : Bytes) : (C18Hdr.phyb b).peak ≤ 64 * b.length + 16777216 :=
  (PGood.run C18Hdr.phybHeader_good b).2

theorem c18_pap_total (b : Bytes) : ¬ faults (C18Hdr.pap b) := (PGood.run C18Hdr.papHeader_good b).1
theorem c18_pap_alloc (b : Bytes) : (C18Hdr.pap b).peak ≤ 64 * b.length + 16777216 :=
  (PGood.run C18Hdr.papHeader_good b).2

/-- `SqPackDatabase::from_existing`, with `read_string` as repaired by C17's patch (lossy) -/
theorem c18_sqdb_total (b : Bytes) : ¬ faults (C18Hdr.sqdb b) := (PGood.run C18Hdr.sqdbFile_good b).1
theorem c18_sqdb_alloc (b : Bytes) : (C18Hdr.sqdb b).peak ≤ 64 * b.length + 16777216 :=
  (PGood.run C18Hdr.sqdbFile_good b).2

theorem c18_exh_total (b : Bytes) : ¬ faults (C18Hdr.exh b) := (PGood.run C18Hdr.exhFile_good b).1
theorem c18_exh_alloc (b : Bytes) : (C18Hdr.exh b).peak ≤ 64 * b.length + 16777216 :=
  (PGood.run C18Hdr.exhFile_good b).2

theorem c18_exd_total (b : Bytes) : ¬ faults (C18Hdr.exd b) := (PGood.run C18Hdr.exdFile_good b).1
theorem c18_exd_alloc (b : Bytes) : (C18Hdr.exd b).peak ≤ 64 * b.length + 16777216 :=
  (PGood.run C18Hdr.exdFile_good b).2

/-! ## step 2 (asset side): cmp, tex, EXD::read_row -/

theorem c18_cmp_total (b : Bytes) : ¬ faults (C18Fmt.cmp b) := (C18Fmt.cmp_good b).1
theorem c18_cmp_alloc (b : Bytes) : (C18Fmt.cmp b).peak ≤ 64 * b.length + 16777216 := (C18Fmt.cmp_good b).2
/-- pinned commit: `buffer.len() - 0x2A800` underflows on the empty buffer (repaired by `fixes/C18-02`) -/
theorem c18_cmp_unfixed_witness : faults (C18Fmt.cmpUnfixed []) := faults_of_isFault (by decide)

/-- `Texture::from_existing` (repaired by `fixes/C18-03`), assuming the `src/bcn` block decoders are
panic-free under the two preconditions they check themselves -/
theorem c18_tex_total (b : Bytes) : ¬ faults (C18Fmt.tex b) := (C18Fmt.tex_good b).1
theorem c18_tex_alloc (b : Bytes) : (C18Fmt.tex b).peak ≤ 64 * b.length + 16777216 := (C18Fmt.tex_good b).2
/-- pinned commit: an 80-byte B8G8R8A8 header declaring 1×1×1 with no payload indexes `src[0]` -/
theorem c18_tex_unfixed_witness :
    faults (C18Fmt.texUnfixed ([0, 0, 0x80, 0, 0x50, 0x14, 0, 0, 1, 0, 1, 0, 1, 0, 1, 0] ++ List.replicate 64 0)) :=
  faults_of_isFault (by decide)

/-- `EXH::from_existing` + `EXD::from_existing` + `EXD::read_row` (repaired by `fixes/C18-04`),
for every header file, every page file and every row id; the budget is that of both files -/
theorem c18_exdrow_total (e d : Bytes) (id : Nat) : ¬ faults (C18Fmt.exdRow e d id) :=
  (C18Fmt.exdRow_good e d id).1
theorem c18_exdrow_alloc (e d : Bytes) (id : Nat) :
    (C18Fmt.exdRow e d id).peak ≤ 64 * (e.length + d.length) + 16777216 := (C18Fmt.exdRow_good e d id).2

/-! ## step 2 (archive side): dat reader, inflate life-cycle -/

/-- `SqPackData::read_from_offset` (standard, model and texture entries; `read_data_block`), repaired
by `fixes/C18-06/07`: for every dat file, every offset and **every behaviour of `inflate`** -/
theorem c18_dat_total (infl : Bytes → Nat → Bool) (w : Bytes) (offset : Nat) :
    ¬ faults (C18Dat.readFromOffset infl w offset) := (C18Dat.readFromOffset_good infl w offset).1
theorem c18_dat_alloc (infl : Bytes → Nat → Bool) (w : Bytes) (offset : Nat) :
    (C18Dat.readFromOffset infl w offset).peak ≤ 64 * w.length + 16777216 :=
  (C18Dat.readFromOffset_good infl w offset).2

/-- every path through `no_header_decompress` (repaired by `fixes/C18-05`) that initialises the
inflate stream also ends it, whatever `inflate` returns -/
theorem c18_inflate_balanced (initOk streamEnd : Bool) (h : initOk = true) :
    ((C18Dat.decompressTrace initOk streamEnd).1.count .end_ = 1) ∧
    ((C18Dat.decompressTrace initOk streamEnd).1.count .init = 1) := by
  subst h; cases streamEnd <;> decide
/-- the pinned commit leaks the stream state when `inflate` does not reach `Z_STREAM_END` -/
theorem c18_inflate_unfixed_witness :
    (C18Dat.decompressTraceUnfixed true false).1.count .end_ = 0 := by decide
example : (C18Dat.decompressTrace true false).1 = [.init, .inflate, .end_] := by decide

/-- non-vacuity: the models accept well-formed headers (a 16-byte `uldh`/`0100` header parses) -/
example : (C18Hdr.uld [0x75, 0x6c, 0x64, 0x68, 0x30, 0x31, 0x30, 0x30, 1, 0, 0, 0, 2, 0, 0, 0]).isOk = true := by
  decide
example : (C18Hdr.uld [0x75, 0x6c, 0x64, 0x68, 0x30, 0x31, 0x30, 0x30, 1, 0, 0, 0, 2, 0, 0]).isOk = false := by
  decide

/-! ## part `pbc`: the panic-by-construction readers that a small repair makes total (stm, avfx) -/

/-- `StainingTemplate::from_existing` (repaired by `fixes/C18-60`) -/
theorem c18_stm_total (b : Bytes) : ¬ faults (C18Stm.fromExisting b) := (C18Stm.fromExisting_good b).1
theorem c18_stm_alloc (b : Bytes) : (C18Stm.fromExisting b).peak ≤ 64 * b.length + 16777216 :=
  (C18Stm.fromExisting_good b).2
/-- pinned commit: the empty buffer hits `StmHeader::read(..).unwrap()`; a header declaring one entry
whose five "ends" are missing hits `read_le::<u16>().unwrap()` -/
theorem c18_stm_unfixed_witness :
    faults (C18Stm.fromExistingUnfixed []) ∧
    faults (C18Stm.fromExistingUnfixed [0, 0, 0, 0, 1, 0, 0, 0, 100, 0, 0, 0]) :=
  ⟨faults_of_isFault (by decide), faults_of_isFault (by decide)⟩
example : (C18Stm.fromExisting [0, 0, 0, 0, 1, 0, 0, 0, 100, 0, 0, 0, 1, 0, 2, 0, 3, 0, 4, 0, 5, 0]).isOk = true := by
  decide

/-- `Avfx::from_existing` (repaired by `fixes/C18-61`, `C18-62`): terminates (the loop consumes at
least the 4-byte tag per iteration), never panics, allocates nothing input-sized -/
theorem c18_avfx_total (b : Bytes) : ¬ faults (C18Avfx.fromExisting b) := (C18Avfx.fromExisting_good b).1
theorem c18_avfx_alloc (b : Bytes) : (C18Avfx.fromExisting b).peak ≤ 64 * b.length + 16777216 :=
  (C18Avfx.fromExisting_good b).2
/-- pinned commit: a header announcing more data than present hits `AvfxBlock::read(..).unwrap()`;
an `nCcS` (scheduler count) block hits `todo!()`; a `reV\0` block of size 0 underflows
`block.size - read_bytes` -/
theorem c18_avfx_unfixed_witness :
    faults (C18Avfx.fromExistingUnfixed [0x58, 0x46, 0x56, 0x41, 0xFF, 0xFF, 0xFF, 0x7F]) ∧
    faults (C18Avfx.fromExistingUnfixed
      [0x58, 0x46, 0x56, 0x41, 16, 0, 0, 0, 0x6E, 0x43, 0x63, 0x53, 4, 0, 0, 0, 1, 0, 0, 0]) ∧
    faults (C18Avfx.fromExistingUnfixed
      [0x58, 0x46, 0x56, 0x41, 16, 0, 0, 0, 0x72, 0x65, 0x56, 0x00, 0, 0, 0, 0, 1, 0, 0, 0]) :=
  ⟨faults_of_isFault (by decide), faults_of_isFault (by decide), faults_of_isFault (by decide)⟩
example : (C18Avfx.fromExisting
    [0x58, 0x46, 0x56, 0x41, 12, 0, 0, 0, 0x72, 0x65, 0x56, 0x00, 4, 0, 0, 0, 1, 0, 0, 0]).isOk = true := by decide

/-- `LayerGroup::from_existing` (repaired by `fixes/C18-65`, `C18-68`, `C18-69`): every header, heap
string, referenced list, offset table and instance object (all 29 variants) for every byte string;
the offset tables are the only input-sized requests and are checked against the remaining input -/
theorem c18_lgb_total (b : Bytes) : ¬ faults (C18Lgb.fromExisting b) := (C18Lgb.fromExisting_good b).1
theorem c18_lgb_alloc (b : Bytes) : (C18Lgb.fromExisting b).peak ≤ 64 * b.length + 16777216 :=
  (C18Lgb.fromExisting_good b).2

/-- non-vacuity: the repository's `resources/tests/empty_planlive.lgb` is accepted, its first 44 bytes
(chunk name without terminator) are rejected -/
example : (C18Lgb.fromExisting [76, 71, 66, 49, 45, 0, 0, 0, 1, 0, 0, 0, 76, 71, 80, 49, 24, 0, 0, 0, 5, 1, 0, 0,
    16, 0, 0, 0, 16, 0, 0, 0, 0, 0, 0, 0, 80, 108, 97, 110, 76, 105, 118, 101, 0]).isOk = true := by decide
example : (C18Lgb.fromExisting [76, 71, 66, 49, 45, 0, 0, 0, 1, 0, 0, 0, 76, 71, 80, 49, 24, 0, 0, 0, 5, 1, 0, 0,
    16, 0, 0, 0, 16, 0, 0, 0, 0, 0, 0, 0, 80, 108, 97, 110, 76, 105, 118, 101]).isOk = false := by decide

end Physis.C18
