import PhysisModel.Proofs.Crc
import PhysisModel.Properties.C10
/-!
# C12 — path, shader-key and file hashes equal their standard definitions

Property theorems only (helper lemmas live in `Proofs/Crc.lean`).  SHA-1 obligations are in
`Properties/C10.lean` and re-exported here once that module exists.
-/
namespace Physis.C12
open Physis Physis.Crc Physis.Spec Physis.Generated

/-- `Jamcrc::checksum` is the bitwise reflected CRC-32 with init 0xFFFFFFFF and **no** final XOR,
for every byte string. -/
theorem c12_jamcrc (s : Bytes) : checksum s = Crc32.crcBitwise 0xFFFFFFFF 0 s := by
  simp only [checksum, Crc32.crcBitwise, final_eq, foldl_update_eq, jamcrcInit]

/-- `calculate_partial_hash` is JAMCRC of the lower-cased bytes. -/
theorem c12_partial_hash (p : Bytes) :
    partialHash p = Crc32.crcBitwise 0xFFFFFFFF 0 (p.map asciiLower) := by
  simp only [partialHash, c12_jamcrc]

/-- path hashes ignore letter case -/
theorem c12_case_insensitive (p q : Bytes) (h : p.map asciiLower = q.map asciiLower) :
    partialHash p = partialHash q := by
  simp only [partialHash, h]

/-- The shader-key hash is the reflected CRC-32 with zero initial value and no final XOR,
given that zlib's `crc32` meets its documented specification. -/
theorem c12_shader_crc (s : Bytes) :
    xivCrc Crc32.zlibCrc32 s = Crc32.crcBitwise 0 0 s := by
  simp only [xivCrc, Crc32.zlibCrc32, Crc32.crcBitwise, xivCrcInit]
  have h0 : (~~~(0xFFFFFFFF : UInt32)) = 0 := by decide
  rw [h0]
  generalize List.foldl Crc32.byteStep 0 s = c
  bv_decide (timeout := 300)

/-- sanity (a test, labelled as such): the published check value JAMCRC("123456789") = 0x340BC6D9 -/
example : Crc32.crcBitwise 0xFFFFFFFF 0 [0x31,0x32,0x33,0x34,0x35,0x36,0x37,0x38,0x39] = 0x340BC6D9 := by
  decide +kernel
/-- sanity: CRC-32("123456789") = 0xCBF43926 under the zlib specification used above -/
example : Crc32.zlibCrc32 0 [0x31,0x32,0x33,0x34,0x35,0x36,0x37,0x38,0x39] = 0xCBF43926 := by
  decide +kernel
/-- non-vacuity of `c12_case_insensitive`: "AbC/d" and "abc/D" -/
example : partialHash [0x41,0x62,0x43,0x2f,0x64] = partialHash [0x61,0x62,0x63,0x2f,0x44] := by
  apply c12_case_insensitive; decide +kernel

/-! ## file digests are SHA-1 (shared with C10; proofs in `Proofs/Sha1Compress.lean`, `Proofs/Sha1Pad.lean`) -/

/-- buffering and padding of `src/sha1.rs` are those of FIPS 180-4, for every message length and
any compression function (re-export of `c10_sha1_padding`) -/
theorem c12_sha1_padding (cfm : Sha1.State → Bytes → Sha1.State)
    (cfs : Spec.Sha1.Vars → Bytes → Spec.Sha1.Vars)
    (hcf : ∀ st blk, blk.length = 64 → Sha1.toVars (cfm st blk) = cfs (Sha1.toVars st) blk)
    (m : Bytes) : Sha1.sha1With cfm m = Spec.Sha1.sha1With cfs m :=
  C10.c10_sha1_padding cfm cfs hcf m

/-- `Sha1State::process` is the FIPS 180-4 compression function (re-export of `c10_sha1_compress`) -/
theorem c12_sha1_compress (st : Sha1.State) (blk : Bytes) (h : blk.length = 64) :
    Sha1.toVars (Sha1.process st blk) = Spec.Sha1.compress (Sha1.toVars st) blk :=
  C10.c10_sha1_compress st blk h

/-- the digest `FileInfo::new` stores is SHA-1 of the file's bytes, for every byte string -/
theorem c12_sha1 (m : Bytes) : Sha1.sha1 m = Spec.Sha1.sha1 m := C10.c10_sha1 m

end Physis.C12
