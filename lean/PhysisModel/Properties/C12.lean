import PhysisModel.Proofs.Crc
/-!
# C12 — path, shader-key and file hashes equal their standard definitions

Property theorems only (helper lemmas live in `Proofs/Crc.lean`).  SHA-1 obligations are in
`Properties/C10.lean` and re-exported here once that module exists.
-/
namespace Physis.C12
open Physis Physis.Crc Physis.Spec Physis.Generated

/-- `Jamcrc::checksum` is the bitwise reflected CRC-32 with init 0xFFFFFFFF and **no** final XOR,
for every byte string. -/
theorem c12_jamcrc (s : Bytes) : checksum s = Crc32.crcBitwise 0xFFFFFFFF 0 s := by
  simp only [checksum, Crc32.crcBitwise, final_eq, foldl_update_eq, jamcrcInit]

/-- `calculate_partial_hash` is JAMCRC of the lower-cased bytes. -/
theorem c12_partial_hash (p : Bytes) :
    partialHash p = Crc32.crcBitwise 0xFFFFFFFF 0 (p.map asciiLower) := by
  simp only [partialHash, c12_jamcrc]

/-- path hashes ignore letter case -/
theorem c12_case_insensitive (p q : Bytes) (h : p.map asciiLower = q.map asciiLower) :
    partialHash p = partialHash q := by
  simp only [partialHash, h]

/-- The shader-key hash is the reflected CRC-32 with zero initial value and no final XOR,
given that zlib's `crc32` meets its documented specification. -/
theorem c12_shader_crc (s : Bytes) :
    xivCrc Crc32.zlibCrc32 s = Crc32.crcBitwise 0 0 s := by
  simp only [xivCrc, Crc32.zlibCrc32, Crc32.crcBitwise, xivCrcInit]
  have h0 : (~~~(0xFFFFFFFF : UInt32)) = 0 := by decide
  rw [h0]
  generalize List.foldl Crc32.byteStep 0 s = c
  bv_decide

/-- sanity (a test, labelled as such): the published check value JAMCRC("123456789") = 0x340BC6D9 -/
example : Crc32.crcBitwise 0xFFFFFFFF 0 [0x31,0x32,0x33,0x34,0x35,0x36,0x37,0x38,0x39] = 0x340BC6D9 := by
  decide +kernel
/-- sanity: CRC-32("123456789") = 0xCBF43926 under the zlib specification used above -/
example : Crc32.zlibCrc32 0 [0x31,0x32,0x33,0x34,0x35,0x36,0x37,0x38,0x39] = 0xCBF43926 := by
  decide +kernel
/-- non-vacuity of `c12_case_insensitive`: "AbC/d" and "abc/D" -/
example : partialHash [0x41,0x62,0x43,0x2f,0x64] = partialHash [0x61,0x62,0x63,0x2f,0x44] := by
  apply c12_case_insensitive; decide +kernel

end Physis.C12
