import PhysisModel.Proofs.Sha1Compress
/-!
# C10 — file-info tables and patch lists are produced and parsed faithfully
-/
namespace Physis.C10
open Physis

/-- `Sha1State::process` (four rounds at a time on emulated SIMD registers) is the FIPS 180-4
compression function (80 single rounds), for every chaining value and every 64-byte block. -/
theorem c10_sha1_compress (st : Sha1.State) (blk : Bytes) (h : blk.length = 64) :
    Sha1.toVars (Sha1.process st blk) = Spec.Sha1.compress (Sha1.toVars st) blk :=
  Sha1.process_eq st blk h

end Physis.C10
