import PhysisModel.Proofs.Sha1Pad
import PhysisModel.Proofs.Fiin
import PhysisModel.Proofs.PatchList
import PhysisModel.Proofs.BinrwTieFiin
/-!
# C10 — file-info tables and patch lists are produced and parsed faithfully

Property theorems only; helper lemmas are in `Proofs/Sha1Compress.lean`, `Proofs/Sha1Pad.lean`,
`Proofs/Fiin.lean`, `Proofs/PatchList.lean`.
-/
namespace Physis.C10
open Physis

/-! ## SHA-1 (`src/sha1.rs`) -/

/-- `Sha1State::process` (four rounds at a time on emulated SIMD registers, five rotating
schedule registers) is the FIPS 180-4 compression function (80 single rounds), for every
chaining value and every 64-byte block. -/
theorem c10_sha1_compress (st : Sha1.State) (blk : Bytes) (h : blk.length = 64) :
    Sha1.toVars (Sha1.process st blk) = Spec.Sha1.compress (Sha1.toVars st) blk :=
  Sha1.process_eq st blk h

/-- non-vacuity: a 64-byte block exists (and the two sides are computed on it) -/
example : Sha1.toVars (Sha1.process Sha1.defaultState (List.replicate 64 0x61)) =
    Spec.Sha1.compress Spec.Sha1.h0 (List.replicate 64 0x61) :=
  c10_sha1_compress _ _ (by decide)

/-- Buffering (`Blocks::input`), length accounting and padding (`Sha1::digest`: 0x80, zeros,
64-bit big-endian bit length, one or two final blocks) feed the compression function exactly the
FIPS 180-4 padded block sequence — for **every** message length, whatever the compression
function is (`cfm` in the code, `cfs` in the standard, agreeing on 64-byte blocks). -/
theorem c10_sha1_padding (cfm : Sha1.State → Bytes → Sha1.State)
    (cfs : Spec.Sha1.Vars → Bytes → Spec.Sha1.Vars)
    (hcf : ∀ st blk, blk.length = 64 → Sha1.toVars (cfm st blk) = cfs (Sha1.toVars st) blk)
    (m : Bytes) : Sha1.sha1With cfm m = Spec.Sha1.sha1With cfs m :=
  Sha1.sha1With_eq cfm cfs hcf m

/-- the hypothesis of `c10_sha1_padding` is met by the real pair (`process`, FIPS `compress`) -/
example (m : Bytes) : Sha1.sha1With Sha1.process m = Spec.Sha1.sha1With Spec.Sha1.compress m :=
  c10_sha1_padding Sha1.process Spec.Sha1.compress c10_sha1_compress m

/-- `Sha1::from(m).digest().bytes()` is the SHA-1 digest of `m`, for every byte string. -/
theorem c10_sha1 (m : Bytes) : Sha1.sha1 m = Spec.Sha1.sha1 m := Sha1.sha1_eq m

/-- sanity (tests of the *specification*, labelled as such): FIPS 180-4 / RFC 3174 vectors -/
example : Spec.Sha1.sha1 [0x61, 0x62, 0x63] =
    [0xa9, 0x99, 0x3e, 0x36, 0x47, 0x06, 0x81, 0x6a, 0xba, 0x3e, 0x25, 0x71, 0x78, 0x50, 0xc2, 0x6c,
     0x9c, 0xd0, 0xd8, 0x9d] := by decide +kernel
example : Spec.Sha1.sha1 [] =
    [0xda, 0x39, 0xa3, 0xee, 0x5e, 0x6b, 0x4b, 0x0d, 0x32, 0x55, 0xbf, 0xef, 0x95, 0x60, 0x18, 0x90,
     0xaf, 0xd8, 0x07, 0x09] := by decide +kernel

/-! ## FIIN tables (`src/fiin.rs`) -/

/-- `FileInfo::write_to_buffer` emits exactly the documented layout (magic, 16 zero bytes, 1024,
`96·n`, 992 zero bytes, then the records), for every list of entries. -/
theorem c10_fiin_write (es : List Spec.Fiin.Entry) : Fiin.write es = Spec.Fiin.encode es :=
  Fiin.write_eq es

/-- a well-formed entry occupies exactly 96 bytes: size (i32 LE), 4 zero bytes, the name padded
with NULs to 64 bytes, the digest padded to 24 bytes -/
theorem c10_fiin_record_layout (e : Spec.Fiin.Entry) (h : Spec.Fiin.WFEntry e = true) :
    (Fiin.writeEntry e).length = 96 ∧
    Fiin.writeEntry e =
      putU32le e.fileSize ++ ([0, 0, 0, 0] ++
        ((e.fileName ++ List.replicate (64 - e.fileName.length) 0) ++
         (e.sha1 ++ List.replicate (24 - e.sha1.length) 0))) :=
  ⟨Fiin.encodeEntry_length e h, rfl⟩

example : Spec.Fiin.WFEntry ⟨6, [0x74, 0x2e, 0x74, 0x78, 0x74], List.replicate 20 0xab⟩ = true := by
  decide

/-- `FileInfo::from_existing` reads a well-formed table back from its documented layout: same
sizes and names, digests in their 24-byte field. -/
theorem c10_fiin_parse (es : List Spec.Fiin.Entry) (h : Spec.Fiin.WF es = true) :
    Fiin.parse (Spec.Fiin.encode es) = .ok (es.map Spec.Fiin.normEntry) :=
  Fiin.parse_encode es h

/-- write → parse round trip through the real writer -/
theorem c10_fiin_roundtrip (es : List Spec.Fiin.Entry) (h : Spec.Fiin.WF es = true) :
    Fiin.parse (Fiin.write es) = .ok (es.map Spec.Fiin.normEntry) := by
  rw [c10_fiin_write]; exact c10_fiin_parse es h

example : Spec.Fiin.WF [⟨6, [0x74, 0x2e, 0x74, 0x78, 0x74], List.replicate 20 0xab⟩,
    ⟨0xFFFFFFFF, [0xc3, 0xa9, 0x00, 0x41], [1, 2, 3]⟩] = true := by decide

/-- `FileInfo::new` lists, per file and in order, the base name of its path, its exact size and
the SHA-1 digest (FIPS 180-4) of its contents. -/
theorem c10_fiin_new (files : List (Bytes × Bytes))
    (h : files.all (fun f => Spec.Fiin.WFPath f.1) = true) :
    Fiin.new files =
      some (files.map fun f => ⟨UInt32.ofNat f.2.length, Spec.Fiin.baseName f.1, Spec.Sha1.sha1 f.2⟩) := by
  have := Fiin.newEntries_eq Sha1.sha1 files h
  simp only [Fiin.new, this, c10_sha1]

/-- the size field is the exact length for files below 2 GiB (`len as i32`) -/
theorem c10_fiin_size_exact (n : Nat) (h : n < 2 ^ 31) :
    (UInt32.ofNat n).toInt32.toInt = n := by
  rw [UInt32.toInt32_ofNat', Int32.toInt_ofNat_of_lt h]

example : [([0x64, 0x2f, 0x61, 0x2e, 0x62], [1, 2, 3]), ([0x78], [])].all
    (fun f : Bytes × Bytes => Spec.Fiin.WFPath f.1) = true := by decide

/-! ## patch lists (`src/patchlist.rs`, with fix C10-01) -/

open Spec.PatchList in
/-- `PatchList::to_string` produces the documented wire text (header lines, `X-Patch-Length` =
sum of the patch lengths, one tab-separated row per patch) for every well-formed boot or game
list. -/
theorem c10_patchlist_write (kind : Kind) (pl : PatchList) (h : WF kind pl = true) :
    Physis.PatchList.toString kind pl = some (encode kind pl) :=
  Physis.PatchList.toString_eq kind pl h

open Spec.PatchList in
/-- `PatchList::from_string` reads the documented wire text back: every patch (length, size on
disk, version, hash block size, hashes, URL — for boot lists the columns boot rows have) and the
total patch length. -/
theorem c10_patchlist_parse (kind : Kind) (pl : PatchList) (h : WF kind pl = true) :
    Physis.PatchList.fromString kind (encode kind pl) = some (decoded kind pl) :=
  Physis.PatchList.fromString_encode kind pl h

open Spec.PatchList in
/-- rendering a list and parsing the text again yields the same patches and
`patch_length = Σ lengths` -/
theorem c10_patchlist_roundtrip (kind : Kind) (pl : PatchList) (h : WF kind pl = true) :
    (Physis.PatchList.toString kind pl).bind (Physis.PatchList.fromString kind) =
      some (decoded kind pl) :=
  Physis.PatchList.roundtrip kind pl h

open Spec.PatchList in
/-- spelled out for game lists: the six transported fields of every patch survive, and the total
patch length is the sum of the lengths -/
theorem c10_patchlist_roundtrip_game (pl pl' : PatchList) (h : WF .game pl = true)
    (hrt : (Physis.PatchList.toString .game pl).bind (Physis.PatchList.fromString .game) = some pl') :
    pl'.patchLength = (totalLength pl.patches).toNat ∧
    pl'.patches.map (fun p => (p.length, p.sizeOnDisk, p.version, p.hashBlockSize, p.hashes, p.url)) =
      pl.patches.map (fun p => (p.length, p.sizeOnDisk, p.version, p.hashBlockSize, p.hashes, p.url)) := by
  rw [c10_patchlist_roundtrip .game pl h] at hrt
  cases hrt
  simp [decoded, carried, Function.comp_def]

/-- non-vacuity: a game list with two patches (one with two hashes) and a boot list -/
example : Spec.PatchList.WF .game
    ⟨[0x34, 0x37], 0, [0x66, 0x66, 0x2f, 0x58], [],
     [⟨[0x68, 0x74, 0x74, 0x70, 0x3a, 0x2f, 0x2f, 0x78], [0x32, 0x30, 0x32, 0x33], 50000000,
        1479062470, 44145529682, [[0x61, 0x62], [0x63]], 71, 11⟩,
      ⟨[0x75], [0x76], -1, 9223372035000000000, -5, [[]], -2147483648, 2147483647⟩]⟩ = true := by
  decide
example : Spec.PatchList.WF .boot
    ⟨[], 0, [], [], [⟨[0x75], [0x76], 0, 22221335, 69674819, [], 19, 18⟩]⟩ = true := by
  decide

end Physis.C10

/-! ### T4: binrw declarations regenerated from the source

`Generated/BinrwFiin.lean` is re-translated from the `#[binrw]` declarations of `src/fiin.rs` on every
run (`lib/binrw2lean.py`); the hand-written readers of `Model/Fiin.lean` are `Layout.read` of the
regenerated descriptors followed by a pure projection (`Proofs/BinrwTieFiin.lean`), for all inputs. -/
namespace Physis.C10
open Physis.Binrw Physis.Generated

/-- `FIINEntry::read` = the regenerated layout (i32, pad 4, 64 bytes, 24 bytes) + the `map` closure -/
theorem c10_binrw_FIINEntry (bs : Bytes) :
    Physis.Fiin.readEntry bs =
      BinrwTie.Fiin.toRes (via BinrwTie.Fiin.entryOf (Layout.read BinrwTie.Fiin.endian BinrwFiin.fIINEntry bs)) :=
  BinrwTie.Fiin.readEntry_eq_generated bs

/-- `FileInfo::read` = the regenerated prefix (magic, little endian, pad 16, two i32) followed by
`pad_before = 992` and `entries_size / 96` entries (`BinrwTie.Fiin.rest`) -/
theorem c10_binrw_FileInfo (buffer : Bytes) :
    Physis.Fiin.parse buffer =
      match Layout.read .little BinrwFiin.fileInfo buffer with
      | some x => BinrwTie.Fiin.rest x
      | none => .none :=
  BinrwTie.Fiin.parse_eq_generated buffer

end Physis.C10
