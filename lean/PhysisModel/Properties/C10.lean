import PhysisModel.Proofs.Sha1Pad
/-!
# C10 — file-info tables and patch lists are produced and parsed faithfully

Property theorems only; helper lemmas are in `Proofs/Sha1Compress.lean`, `Proofs/Sha1Pad.lean`,
`Proofs/Fiin.lean`, `Proofs/PatchList.lean`.
-/
namespace Physis.C10
open Physis

/-! ## SHA-1 (`src/sha1.rs`) -/

/-- `Sha1State::process` (four rounds at a time on emulated SIMD registers, five rotating
schedule registers) is the FIPS 180-4 compression function (80 single rounds), for every
chaining value and every 64-byte block. -/
theorem c10_sha1_compress (st : Sha1.State) (blk : Bytes) (h : blk.length = 64) :
    Sha1.toVars (Sha1.process st blk) = Spec.Sha1.compress (Sha1.toVars st) blk :=
  Sha1.process_eq st blk h

/-- non-vacuity: a 64-byte block exists (and the two sides are computed on it) -/
example : Sha1.toVars (Sha1.process Sha1.defaultState (List.replicate 64 0x61)) =
    Spec.Sha1.compress Spec.Sha1.h0 (List.replicate 64 0x61) :=
  c10_sha1_compress _ _ (by decide)

/-- Buffering (`Blocks::input`), length accounting and padding (`Sha1::digest`: 0x80, zeros,
64-bit big-endian bit length, one or two final blocks) feed the compression function exactly the
FIPS 180-4 padded block sequence — for **every** message length, whatever the compression
function is (`cfm` in the code, `cfs` in the standard, agreeing on 64-byte blocks). -/
theorem c10_sha1_padding (cfm : Sha1.State → Bytes → Sha1.State)
    (cfs : Spec.Sha1.Vars → Bytes → Spec.Sha1.Vars)
    (hcf : ∀ st blk, blk.length = 64 → Sha1.toVars (cfm st blk) = cfs (Sha1.toVars st) blk)
    (m : Bytes) : Sha1.sha1With cfm m = Spec.Sha1.sha1With cfs m :=
  Sha1.sha1With_eq cfm cfs hcf m

/-- `Sha1::from(m).digest().bytes()` is the SHA-1 digest of `m`, for every byte string. -/
theorem c10_sha1 (m : Bytes) : Sha1.sha1 m = Spec.Sha1.sha1 m := Sha1.sha1_eq m

/-- sanity (tests of the *specification*, labelled as such): FIPS 180-4 / RFC 3174 vectors -/
example : Spec.Sha1.sha1 [0x61, 0x62, 0x63] =
    [0xa9, 0x99, 0x3e, 0x36, 0x47, 0x06, 0x81, 0x6a, 0xba, 0x3e, 0x25, 0x71, 0x78, 0x50, 0xc2, 0x6c,
     0x9c, 0xd0, 0xd8, 0x9d] := by decide +kernel
example : Spec.Sha1.sha1 [] =
    [0xda, 0x39, 0xa3, 0xee, 0x5e, 0x6b, 0x4b, 0x0d, 0x32, 0x55, 0xbf, 0xef, 0x95, 0x60, 0x18, 0x90,
     0xaf, 0xd8, 0x07, 0x09] := by decide +kernel

end Physis.C10
