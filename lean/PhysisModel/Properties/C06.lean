import PhysisModel.Proofs.MdlGeometry
import PhysisModel.Proofs.MdlPlaced
import PhysisModel.Proofs.MdlFill
import PhysisModel.Proofs.MdlRedundant
import PhysisModel.Proofs.SoftFloat
import PhysisModel.Proofs.BinrwTieMdl
/-!
# C06 — model parsing yields the stored geometry for every vertex layout

Property theorems only.  `Spec/Mdl.lean` defines the format (`encodeMdl`) and what must be reported
(`view`, `stdDecode`); `Model/Mdl.lean` is the executable model of `MDL::from_existing`; helper
lemmas live in `Proofs/Mdl{Grammar,Layout,Geometry,Fill,Placed,Redundant}.lean` and
`Proofs/SoftFloat.lean`.

Recorded finding `c06.blendweights-byte4`: the code decodes a (BlendWeights, Byte4) element with
the tangent formula `2b/255 − 1` (fourth component ±1), the specification reads "bytes" as the
byte values (what the code's own writer `write_byte_float42` inverts).  The whole-file theorem is
therefore `…_partial` with that class excluded (`noWeightsByte4`), and `…_witness` shows the
failure on a concrete element.
-/
namespace Physis.C06
open Physis Physis.Mdl Physis.Spec.Mdl Physis.SoftFloat Physis.Spec.Float

/-! ## codecs: the typed readers have the standard meaning of each numeric type -/

/-- `read_half*`: every non-NaN half pattern converts to the f32 with exactly the same IEEE-754
value (all 63 488 patterns, kernel evaluation), NaN stays NaN; `read_byte_float4`: for every byte
`b` the result is the f32 nearest to `b/255` (ties to even).  `Single*` and `Byte4` are the stored
bits by definition (`f32sOf`, identity). -/
theorem c06_codec_standard :
    (∀ h : UInt16, isNaN16 h = false → FVal.same (valF32 (halfToF32 h)) (valHalf h) = true) ∧
    (∀ h : UInt16, isNaN16 h = true → isNaN32 (halfToF32 h) = true) ∧
    (∀ b : UInt8, isNearestF32 (readByteFloat b) b.toNat 255 = true) :=
  ⟨half_standard, half_standard_nan, byteFloat_standard⟩

/-- sanity (tests, labelled as such): 1.0, the smallest subnormal, the largest half, 1/255, 1.0 -/
example : halfToF32 0x3C00 = 0x3F800000 ∧ halfToF32 0x0001 = 0x33800000 ∧
    halfToF32 0x7BFF = 0x477FE000 ∧ readByteFloat 1 = 0x3B808081 ∧ readByteFloat 255 = 0x3F800000 := by
  decide +kernel

/-! ## grammar -/

/-- A 17-slot vertex-declaration block with 1..16 valid elements (none but possibly the first
carrying the 0xFF marker as its stream) is read back exactly, and the reader stops at the
136-byte boundary, whatever follows. -/
theorem c06_decl_block_roundtrip (d : List VertexElement) (h : declOk d = true) (rest : Bytes) :
    parseDecl (encDecl d ++ rest) = .ok (d, rest) :=
  parseDecl_enc d h rest

/-- non-vacuity: a three-element declaration (Position Single3, BlendWeights ByteFloat4, UV Half4) -/
example : declOk [⟨0, 0, 2, 0, 0⟩, ⟨0, 12, 8, 1, 0⟩, ⟨1, 0, 14, 4, 0⟩] = true := by decide

/-- The whole runtime block (declarations, `ModelHeader`, every table, version-dependent bone
tables and bone-map size) is read back field by field from its encoding, for every `ModelData`
value consistent with its own count fields — versions ≤ 5 and ≥ 6. -/
theorem c06_grammar_roundtrip (fh : FileHeader) (d : ModelData) (h : modelDataOk fh d = true)
    (rest : Bytes) : parseModelData fh (encModelData fh.version d ++ rest) = .ok (d, rest) :=
  parseModelData_enc fh d h rest

/-- On an encoded abstract model the reader's two header parses return exactly the layout the
format definition computed. -/
theorem c06_headers_of_encode (m : AbstractModel) (h : WF m = true) :
    parseFileHeader (encodeMdl m) =
        .ok (fileHeader m, encModelData m.version (modelData m) ++ sections m) ∧
    parseModelData (fileHeader m) (encModelData m.version (modelData m) ++ sections m) =
        .ok (modelData m, sections m) :=
  ⟨parse_fileHeader m, parse_modelData m h⟩

/-! ### bytes of a declaration block that carry no information

`encDecl` zeroes the padding of every element, the fields of the end-marker slot and every slot
behind it, as the library's writer does.  The format gives those bytes no meaning, so the reader
has to report the same declaration whatever they hold (`Spec/MdlFill.lean`: `encDeclF d f`; the one
constraint is the format's own: the marker slot is decoded as an element, so its type and usage
bytes are enum discriminants). -/

/-- A declaration block is read back exactly, and the reader stops at the 136-byte boundary,
whatever the padding bytes, the marker slot's other fields and the slots behind the marker hold. -/
theorem c06_decl_fill_roundtrip (d : List VertexElement) (h : declOk d = true) (f : DeclFill)
    (hf : declFillOk d f = true) (rest : Bytes) :
    parseDecl (encDeclF d f ++ rest) = .ok (d, rest) :=
  parseDecl_encF d h f hf rest

/-- `encDeclF` generalises `encDecl`: the zero filler is admissible and gives the same block, so
`c06_decl_block_roundtrip` is the instance `f = DeclFill.zero d` -/
theorem c06_decl_fill_generalises (d : List VertexElement) :
    declFillOk d (DeclFill.zero d) = true ∧ encDeclF d (DeclFill.zero d) = encDecl d :=
  ⟨declFillOk_zero d, encDeclF_zero d⟩

/-- non-vacuity: a two-element declaration with 0xFF / invalid enum bytes in every unused place
(padding 0xFF, marker slot offset 9 / type 17 / usage 7 / index 0xFF, tail bytes 0xFF, 0x12, 0x08 …) -/
example : declOk [⟨0, 0, 2, 0, 0⟩, ⟨1, 0, 14, 4, 0⟩] = true ∧
    declFillOk [⟨0, 0, 2, 0, 0⟩, ⟨1, 0, 14, 4, 0⟩]
      { pads := [(0xFF, 0xFF, 0xFF), (1, 2, 3)], mkOffset := 9, mkType := 17, mkUsage := 7, mkIndex := 0xFF,
        mkPad := (0xFF, 0, 0xFF), tail := (List.replicate 37 [0xFF, 0x12, 0x08]).flatten ++ [0xFF] } = true := by
  decide

/-- The whole runtime block is read back field by field whatever the unused bytes of its
declaration blocks hold — versions ≤ 5 and ≥ 6. -/
theorem c06_grammar_fill_roundtrip (fh : FileHeader) (d : ModelData) (h : modelDataOk fh d = true)
    (fs : List DeclFill) (hfs : declFillsOk d.decls fs = true) (rest : Bytes) :
    parseModelData fh (encModelDataF fh.version d fs ++ rest) = .ok (d, rest) :=
  parseModelData_encF fh d h fs hfs rest

/-- On a whole file with filled declaration blocks the reader's two header parses return the same
layout as on the zero-filled file, and leave the same geometry sections, at the same offsets (the
length of the file is unchanged).  The geometry stage reads the file at absolute offsets behind
the runtime block, which `encodeMdlF` does not change: the whole-file statement — that
`fromExisting (encodeMdlF m fs)` returns the same `MDL` as on the zero-filled file — is
`c06_parse_fill_partial` in the section "the whole file" below (proved, as an instance of
`c06_parse_any_file_partial`; the correspondence family `declfill` additionally runs the
executable model and the code on filled files). -/
theorem c06_headers_of_fill (m : AbstractModel) (h : WF m = true) (fs : List DeclFill)
    (hfs : declFillsOk (modelData m).decls fs = true) :
    parseFileHeader (encodeMdlF m fs) =
        .ok (fileHeader m, encModelDataF m.version (modelData m) fs ++ sections m) ∧
    parseModelData (fileHeader m) (encModelDataF m.version (modelData m) fs ++ sections m) =
        .ok (modelData m, sections m) ∧
    (encodeMdlF m fs).length = (encodeMdl m).length :=
  ⟨parseFileHeader_enc _ _, parseModelData_encF _ _ (wf_modelDataOk m h) fs hfs _, length_encodeMdlF m h fs hfs⟩

/-- Bone and material names are exactly the stored names (each byte pushed as a `char`), taken
from the string table at the offsets in the name tables. -/
theorem c06_names (m : AbstractModel) (h : WF m = true) :
    (modelData m).boneNameOffsets.mapM (nameAt (modelData m).header.strings) =
        (.ok (m.bones.map (·.flatMap latin1Utf8)) : R (List Bytes)) ∧
    (modelData m).materialNameOffsets.mapM (nameAt (modelData m).header.strings) =
        (.ok (m.materials.map (·.flatMap latin1Utf8)) : R (List Bytes)) :=
  ⟨bone_names m h, material_names m h⟩

/-! ## addressing -/

/-- The address the reader computes for element `e` of vertex `k` of mesh `d` of LOD `i`
(`lod.vertex_data_offset + mesh.vertex_buffer_offsets[stream] + offset + stride·k`, in `u32`) does
not overflow and equals the position of byte `k·stride + offset` of that mesh's stream in the
encoded file: reading `n` bytes there yields exactly that slice of the abstract stream. -/
theorem c06_element_address (m : AbstractModel) (h : WF m = true)
    (i : Nat) (l : ALod) (hl : m.lods[i]? = some l)
    (d : Nat) (mesh : AMesh) (hm : l.meshes[d]? = some mesh)
    (lod : MeshLod) (hlod : (modelData m).lods[i]? = some lod)
    (row : Mesh)
    (hrow : (modelData m).meshes[((m.lods.take i).map (·.meshes.length)).sum + d]? = some row)
    (e : VertexElement) (he : e ∈ mesh.decl)
    (s : AStream) (hs : mesh.streams[e.stream.toNat]? = some s)
    (k : Nat) (hk : k < mesh.vertexCount.toNat) :
    ∃ a, elementAddress lod row e k.toUInt16 = .ok a ∧
      a.toNat = dataStart m
        + ((m.lods.take i).map (fun l => lodVertexSize l + lodIndexSize l)).sum
        + ((l.meshes.take d).map streamSize).sum
        + ((mesh.streams.take e.stream.toNat).map (·.data.length)).sum
        + e.offset.toNat + s.stride.toNat * k ∧
      ∀ n, e.offset.toNat + n ≤ s.stride.toNat →
        readAt (encodeMdl m).toArray a.toNat n
          = some ((s.data.drop (k * s.stride.toNat + e.offset.toNat)).take n) :=
  element_address m h i l hl d mesh hm lod hlod row hrow e he s hs k hk

/-! ## the whole file -/

/- Full statement (what the property says):

  theorem c06_parse_encode (m) (h : WF m = true) (v) (hv : view m = some v) :
      (fromExisting (encodeMdl m)).map MDL.view = .ok v

It does not hold for models in the class of the recorded finding (see the witness below); the
proved theorem excludes exactly that class. -/

/-- **Parsing an encoded model reports exactly the stored geometry**: for every well-formed
abstract model — versions 5 and 6, 1..3 LODs, any number of meshes, every supported
`(usage, type)` set over 1..3 streams with arbitrary offsets and strides, arbitrary buffer
contents, shapes, sub-meshes, bone tables — `MDL::from_existing` (model) returns the file header
and runtime tables of the layout, and per mesh the vertices decoded from the element's stream /
offset / stride / type with the standard meaning (`vertexOf`, `stdDecode`), the index list, the
sub-mesh ranges, the shapes, the raw streams with their strides, and the bone / material names.
Excluded: meshes with vertices that declare (BlendWeights, Byte4) (finding `c06.blendweights-byte4`). -/
theorem c06_parse_encode_partial (m : AbstractModel) (h : WF m = true)
    (hw : noWeightsByte4 m = true) (v : View) (hv : view m = some v) :
    fromExisting (encodeMdl m) =
      .ok { fileHeader := fileHeader m, modelData := modelData m, lods := v.lods,
            affectedBoneNames := v.affectedBoneNames, materialNames := v.materialNames } :=
  parse_encode m h hw v hv

/-- the reported view, as the caller sees it -/
theorem c06_parse_encode_view_partial (m : AbstractModel) (h : WF m = true)
    (hw : noWeightsByte4 m = true) (v : View) (hv : view m = some v) :
    (fromExisting (encodeMdl m)).map MDL.view = .ok v :=
  parse_encode_view m h hw v hv

/-- a concrete two-vertex model: Position Half4 + UV Half2 in stream 0, Color ByteFloat4 in
stream 1, three indices, one sub-mesh, a bone and a material name -/
def sampleModel : AbstractModel :=
  { version := 0x1000005, fileMaterialCount := 1, indexBufferStreamingEnabled := false,
    hasEdgeGeometry := false, lodCount := 1,
    lods := [
      { meshes := [
          { decl := [⟨0, 0, 14, 0, 0⟩, ⟨0, 8, 13, 4, 0⟩, ⟨1, 0, 8, 7, 0⟩]
            vertexCount := 2
            streams := [⟨12, [0x00, 0x3C, 0x00, 0xC0, 0x01, 0x00, 0x00, 0x3C, 0x00, 0x38, 0xFF, 0x7B,
                              0x00, 0x00, 0x00, 0x80, 0x00, 0x7C, 0x00, 0x00, 0x66, 0x2E, 0x00, 0xBC]⟩,
                        ⟨4, [0, 1, 128, 255, 255, 254, 127, 3]⟩]
            indices := [0, 1, 0], indexPad := 5, materialIndex := 0, boneTableIndex := 0
            submeshes := [⟨0, 3, 0, 0, 1⟩] }],
        mid := List.replicate 28 0, edgeGeometryDataOffset := 0, polygonCount := 1 },
      { meshes := [], mid := List.replicate 28 0, edgeGeometryDataOffset := 0, polygonCount := 0 },
      { meshes := [], mid := List.replicate 28 0, edgeGeometryDataOffset := 0, polygonCount := 0 }],
    misc := ⟨0x3F800000, 0x08, 0, 0, 0, 0, 0, 0, 0, 0, 0, 0, 0⟩,
    attributes := [], bones := [[0x6A, 0x5F, 0x6B, 0x61, 0x6F]], materials := [[0x2F, 0x6D, 0xE9]],
    shapes := [], shapeMeshes := [], shapeValues := [], elementIds := [],
    terrainShadowMeshes := [], terrainShadowSubmeshes := [],
    boneTables := [⟨List.replicate 64 0, 1⟩], boneTablesV2 := [], submeshBoneMap := [0],
    padding := [0xAA, 0xBB], boundingBoxes := List.replicate 128 0,
    boneBoundingBoxes := [List.replicate 32 0] }

/-- non-vacuity of `c06_parse_encode_partial`: the hypotheses hold on `sampleModel` -/
example : WF sampleModel = true ∧ noWeightsByte4 sampleModel = true ∧ (view sampleModel).isSome = true := by
  decide +kernel

/-! ### every file with the same layout; declaration blocks with arbitrary don't-care bytes

The geometry stage uses two facts about the bytes of the file and nothing else
(`Proofs/MdlGeometry.lean`, `SameLayout m file`): the two header parses return `fileHeader m` and
`modelData m`, and the sections of `m` lie in `file` from `dataStart m` on.  The whole-file theorem
is therefore proved for every such file; `encodeMdl m` (`sameLayout_encode`) and `encodeMdlF m fs`
(`sameLayout_fill`) are instances, and so is either of them followed by arbitrary bytes
(`sameLayout_fill_append`). -/

/-- **Parsing any file with the layout of `m` reports exactly the stored geometry of `m`**: if the
reader's header stage on `file` returns the file header and the runtime tables of `m`, and the
geometry sections of `m` occupy `file` from `dataStart m` on (`SameLayout m file` — nothing else is
assumed about `file`: not the bytes the header stage ignores, not what follows the sections, not
the length), then `MDL::from_existing` (model) returns what `c06_parse_encode_partial` states for
`encodeMdl m`.  "partial" refers only to the excluded class of the recorded finding
`c06.blendweights-byte4` (meshes with vertices that declare (BlendWeights, Byte4),
`noWeightsByte4`), exactly as for `c06_parse_encode_partial`; the full statement is the same
without `hw`, and fails on that class (`c06_blendweights_byte4_witness`). -/
theorem c06_parse_any_file_partial (m : AbstractModel) (file : Bytes) (hl : SameLayout m file)
    (h : WF m = true) (hw : noWeightsByte4 m = true) (v : View) (hv : view m = some v) :
    fromExisting file =
      .ok { fileHeader := fileHeader m, modelData := modelData m, lods := v.lods,
            affectedBoneNames := v.affectedBoneNames, materialNames := v.materialNames } :=
  hl.parse h hw v hv

/-- `c06_parse_encode_partial` is the instance `file = encodeMdl m` -/
theorem c06_any_file_generalises (m : AbstractModel) (h : WF m = true) :
    SameLayout m (encodeMdl m) :=
  sameLayout_encode m h

/-- a filler for the one declaration block of `sampleModel` (three elements): 0xFF in the padding
bytes, marker slot offset 9 / type 17 / usage 7 / index 0xFF, and 0xFF / invalid enum bytes
(0x12 as a type, 0x08 as a usage) in the thirteen slots behind the marker -/
def sampleFill : DeclFill :=
  { pads := [(0xFF, 0xFF, 0xFF), (1, 2, 3), (0xFF, 0, 0x80)], mkOffset := 9, mkType := 17, mkUsage := 7,
    mkIndex := 0xFF, mkPad := (0xFF, 0, 0xFF),
    tail := (List.replicate 13 [0xFF, 0xFF, 0x12, 0x08, 0xFF, 0xFF, 0x00, 0xFF]).flatten }

/-- non-vacuity of `c06_parse_any_file_partial`: the hypotheses hold on `sampleModel` and a file
that is neither `encodeMdl sampleModel` nor `encodeMdlF sampleModel _` — filled declaration block
and two bytes behind the last section -/
example : SameLayout sampleModel (encodeMdlF sampleModel [sampleFill] ++ [0xDE, 0xAD]) ∧
    (WF sampleModel = true ∧ noWeightsByte4 sampleModel = true ∧ (view sampleModel).isSome = true) :=
  ⟨sameLayout_fill_append sampleModel (by decide +kernel) [sampleFill] (by decide +kernel) _,
    by decide +kernel⟩

/-- **Parsing reports the stored geometry whatever the don't-care bytes of the declaration blocks
hold**: for every well-formed model and every filler `fs` of its declaration blocks (padding bytes
of the elements, the other fields of the end-marker slot — type and usage enum discriminants, as
the format requires of a slot that is decoded —, every slot behind the marker), the file
`encodeMdlF m fs` is read to the same `MDL` as the zero-filled `encodeMdl m`: same file header and
runtime tables, same vertices, indices, sub-meshes, shapes, raw streams, names.  "partial" refers
only to the excluded (BlendWeights, Byte4) class of finding `c06.blendweights-byte4`, as for
`c06_parse_encode_partial`. -/
theorem c06_parse_fill_partial (m : AbstractModel) (h : WF m = true)
    (hw : noWeightsByte4 m = true) (fs : List DeclFill)
    (hfs : declFillsOk (modelData m).decls fs = true) (v : View) (hv : view m = some v) :
    fromExisting (encodeMdlF m fs) =
      .ok { fileHeader := fileHeader m, modelData := modelData m, lods := v.lods,
            affectedBoneNames := v.affectedBoneNames, materialNames := v.materialNames } :=
  c06_parse_any_file_partial m _ (sameLayout_fill m h fs hfs) h hw v hv

/-- non-vacuity of `c06_parse_fill_partial`: the hypotheses hold on `sampleModel` with
`sampleFill`, and the filled file differs from the zero-filled one -/
example : WF sampleModel = true ∧ noWeightsByte4 sampleModel = true ∧
    declFillsOk (modelData sampleModel).decls [sampleFill] = true ∧
    (view sampleModel).isSome = true ∧
    encodeMdlF sampleModel [sampleFill] ≠ encodeMdl sampleModel := by
  decide +kernel

/-- `encodeMdlF` generalises `encodeMdl`: the zero fillers are admissible and give the same file,
so `c06_parse_encode_partial` is the instance `fs = decls.map DeclFill.zero` -/
theorem c06_fill_generalises (m : AbstractModel) :
    encodeMdlF m ((modelData m).decls.map DeclFill.zero) = encodeMdl m ∧
      declFillsOk (modelData m).decls ((modelData m).decls.map DeclFill.zero) = true :=
  encodeMdlF_zero m

/-! ### redundant header copies with arbitrary values

A model file stores several facts twice (file header / LOD table / `ModelHeader`); `encodeMdl`
writes consistent copies.  The reader uses one copy of each and never compares them, so the
theorems above are restated for header records that differ from those of `m` in the fields that
are never read (`Proofs/MdlRedundant.lean`).  The fields that *are* read after the grammar, found
by reading `Model/Mdl.lean` and fixed in the relation `ReadsSame fh fh' md md'`:

* `FileHeader`: `indexOffsets` (`readPart`) — nothing else;
* `MeshLod` (each row): `meshIndex`, `meshCount` (`readLod`), `vertexDataOffset`
  (`elementAddress`, `readStreams`) — nothing else;
* `ModelData`: `decls`, `meshes` (`readPart`), `submeshes` (`readSubmeshes`), `shapes`,
  `shapeMeshes`, `shapeValues` (`readShapes`), `boneNameOffsets`, `materialNameOffsets`
  (`fromExisting`);
* `ModelHeader`: `strings` (names of shapes, bones, materials), `lodCount` (the LOD loop).

(`FileHeader.version` and `vertexDeclarationCount` are read by the grammar: they decide which
`ModelData` the header stage returns, and play no role afterwards.) -/

/-- **The reader ignores every field outside `ReadsSame`.**  For any two pairs of header records
that agree on the fields listed above, any file and any LOD number, the geometry stage is the
same program run: `readLod` returns the same parts (or the same error), the name lookups return
the same names, the LOD loop has the same bound, and so the whole stage after the two header
parses (`afterHeaders`: names, then every LOD) returns the same result.  Equalities between
programs — no well-formedness, nothing about the contents of `file`.

Fields thereby proved to be ignored after the grammar: of `FileHeader` all but `indexOffsets`
(`version`, `stackSize`, `runtimeSize`, `vertexDeclarationCount`, `materialCount`, `vertexOffsets`,
`vertexBufferSize`, `indexBufferSize`, `lodCount`, `indexBufferStreamingEnabled`,
`hasEdgeGeometry`); of every `MeshLod` row `mid`, `edgeGeometryDataOffset`, `polygonCount`,
`vertexBufferSize`, `indexBufferSize`, `indexDataOffset`; of `ModelHeader` all but `strings` and
`lodCount`; of `ModelData` `elementIds`, `attributeNameOffsets`, `terrainShadowMeshes`,
`terrainShadowSubmeshes`, `boneTables`, `boneTablesV2`, `submeshBoneMapSize`,
`submeshBoneMapSizeV2`, `submeshBoneMap`, `paddingAmount`, `unknownPadding`, `boundingBoxes`,
`boneBoundingBoxes`. -/
theorem c06_reader_ignores_redundant (fh fh' : FileHeader) (md md' : ModelData)
    (hrs : ReadsSame fh fh' md md') (file : Array UInt8) :
    (∀ i, readLod file fh' md' i = readLod file fh md i) ∧
    md'.boneNameOffsets.mapM (nameAt md'.header.strings) =
      md.boneNameOffsets.mapM (nameAt md.header.strings) ∧
    md'.materialNameOffsets.mapM (nameAt md'.header.strings) =
      md.materialNameOffsets.mapM (nameAt md.header.strings) ∧
    md'.header.lodCount = md.header.lodCount ∧
    afterHeaders file fh' md' = afterHeaders file fh md :=
  ⟨readLod_congr hrs file, by rw [hrs.boneNameOffsets, hrs.strings],
    by rw [hrs.materialNameOffsets, hrs.strings], hrs.lodCount, afterHeaders_congr hrs file⟩

/-- `afterHeaders` is what `MDL::from_existing` (model) does after the two header parses: whenever
the header stage succeeds with `fh`, `md`, the result is `afterHeaders` on the whole file and those
records, packed together with the records themselves. -/
theorem c06_reader_after_headers (file rest rest' : Bytes) (fh : FileHeader) (md : ModelData)
    (hfh : parseFileHeader file = .ok (fh, rest)) (hmd : parseModelData fh rest = .ok (md, rest')) :
    fromExisting file =
      (afterHeaders file.toArray fh md).map fun v =>
        { fileHeader := fh, modelData := md, lods := v.lods,
          affectedBoneNames := v.affectedBoneNames, materialNames := v.materialNames } :=
  fromExisting_of_headers hfh hmd

/-- **Parsing any file that holds the sections of `m` and whose header records agree with those of
`m` on the fields that are read reports exactly the stored geometry of `m`** — together with the
header records as the file stores them.  Generalises `c06_parse_any_file_partial` (the instance
`fh' = fileHeader m`, `md' = modelData m`, `ReadsSame.refl`): the header stage may return *any*
records `fh'`, `md'` with `ReadsSame (fileHeader m) fh' (modelData m) md'`, i.e. every field listed
under `c06_reader_ignores_redundant` may hold any value the grammar accepts.  `HasSections m file`:
the geometry sections of `m` occupy `file` from `dataStart m` on (the second half of `SameLayout`).
"partial": the excluded (BlendWeights, Byte4) class of finding `c06.blendweights-byte4`, as for
`c06_parse_encode_partial`. -/
theorem c06_parse_reads_same_partial (m : AbstractModel) (file rest rest' : Bytes)
    (fh' : FileHeader) (md' : ModelData)
    (hfh : parseFileHeader file = .ok (fh', rest))
    (hmd : parseModelData fh' rest = .ok (md', rest'))
    (hrs : ReadsSame (fileHeader m) fh' (modelData m) md')
    (hsec : HasSections m file)
    (h : WF m = true) (hw : noWeightsByte4 m = true) (v : View) (hv : view m = some v) :
    fromExisting file =
      .ok { fileHeader := fh', modelData := md', lods := v.lods,
            affectedBoneNames := v.affectedBoneNames, materialNames := v.materialNames } :=
  hsec.parse_readsSame hfh hmd hrs h hw v hv

/-- `c06_parse_any_file_partial` is the instance of `c06_parse_reads_same_partial` with the records
of `m` themselves -/
theorem c06_reads_same_generalises (m : AbstractModel) (file : Bytes) (hl : SameLayout m file) :
    HasSections m file ∧ ReadsSame (fileHeader m) (fileHeader m) (modelData m) (modelData m) ∧
    ∃ rest rest', parseFileHeader file = .ok (fileHeader m, rest) ∧
      parseModelData (fileHeader m) rest = .ok (modelData m, rest') :=
  ⟨hl.geom, ReadsSame.refl _ _, hl.hdr⟩

/-- **Parsing reports the stored geometry whatever the redundant header copies hold**: for every
well-formed model `m` and every replacement `ρ` (`Spec/MdlRedundant.lean`) the file
`encodeMdlR m ρ` — the file of `encodeMdl m` in which

* the file header's `stackSize`, `runtimeSize`, `vertexOffsets[0..2]`, `vertexBufferSize[0..2]`,
  `indexBufferSize[0..2]` and `lodCount`, and
* in each of the three rows of the LOD table `edgeGeometryDataOffset`, `vertexBufferSize`,
  `indexBufferSize` and `indexDataOffset`

hold arbitrary values — is read to the header records exactly as stored (`ρ.fh (fileHeader m)`,
`ρ.md (modelData m)`) and to the same vertices, indices, sub-meshes, shapes, raw streams and names
as `encodeMdl m`.  No hypothesis on `ρ`: the grammar's consistency predicate `modelDataOk` does not
mention a replaced field, and both header blocks keep their length.  The fields that stay as
`encodeMdl` computes them are the ones the reader uses: `FileHeader.indexOffsets`,
`MeshLod.vertexDataOffset`, `MeshLod.meshIndex` / `meshCount`, `ModelHeader.lodCount` (and
`FileHeader.version` / `vertexDeclarationCount` for the grammar).  "partial": the excluded
(BlendWeights, Byte4) class of finding `c06.blendweights-byte4`, as for `c06_parse_encode_partial`. -/
theorem c06_parse_redundant_partial (m : AbstractModel) (h : WF m = true)
    (hw : noWeightsByte4 m = true) (ρ : Redundant) (v : View) (hv : view m = some v) :
    fromExisting (encodeMdlR m ρ) =
      .ok { fileHeader := ρ.fh (fileHeader m), modelData := ρ.md (modelData m), lods := v.lods,
            affectedBoneNames := v.affectedBoneNames, materialNames := v.materialNames } :=
  parse_encodeR m h hw ρ v hv

/-- the reported view, as the caller sees it: the same for every `ρ` -/
theorem c06_parse_redundant_view_partial (m : AbstractModel) (h : WF m = true)
    (hw : noWeightsByte4 m = true) (ρ : Redundant) (v : View) (hv : view m = some v) :
    (fromExisting (encodeMdlR m ρ)).map MDL.view = .ok v :=
  parse_encodeR_view m h hw ρ v hv

/-- `encodeMdlR` generalises `encodeMdl`: the identity replacement gives the same file, so
`c06_parse_encode_partial` is the instance `ρ = Redundant.id` -/
theorem c06_redundant_generalises (m : AbstractModel) : encodeMdlR m Redundant.id = encodeMdl m :=
  encodeMdlR_id m

/-- `c06_parse_redundant_partial` is an instance of `c06_parse_reads_same_partial`: on
`encodeMdlR m ρ` the header stage returns the replaced records, they agree with the records of `m`
on every field that is read, and the sections lie at `dataStart m` -/
theorem c06_redundant_reads_same (m : AbstractModel) (h : WF m = true) (ρ : Redundant) :
    parseFileHeader (encodeMdlR m ρ) =
        .ok (ρ.fh (fileHeader m), encModelData m.version (ρ.md (modelData m)) ++ sections m) ∧
    parseModelData (ρ.fh (fileHeader m)) (encModelData m.version (ρ.md (modelData m)) ++ sections m) =
        .ok (ρ.md (modelData m), sections m) ∧
    ReadsSame (fileHeader m) (ρ.fh (fileHeader m)) (modelData m) (ρ.md (modelData m)) ∧
    HasSections m (encodeMdlR m ρ) :=
  ⟨(parse_headersR m h ρ).1, (parse_headersR m h ρ).2, readsSame_redundant ρ _ _,
    hasSections_redundant m ρ⟩

/-- every redundant copy set to `0xDEADBEEF`, the file header's LOD count to `0xEF` -/
def sampleRedundant : Redundant := Redundant.const 0xDEADBEEF 0xEF

/-- non-vacuity of `c06_parse_redundant_partial` / `c06_parse_reads_same_partial` /
`c06_reader_ignores_redundant`: the hypotheses hold on `sampleModel` with `sampleRedundant`; the
replaced records satisfy `ReadsSame` (decided by evaluation, independently of
`readsSame_redundant`) although every replaced field differs from the consistent copy, and the file
differs from `encodeMdl sampleModel` -/
example : WF sampleModel = true ∧ noWeightsByte4 sampleModel = true ∧
    (view sampleModel).isSome = true ∧
    ReadsSame (fileHeader sampleModel) (sampleRedundant.fh (fileHeader sampleModel))
      (modelData sampleModel) (sampleRedundant.md (modelData sampleModel)) ∧
    (let a := fileHeader sampleModel; let b := sampleRedundant.fh a
     a.stackSize ≠ b.stackSize ∧ a.runtimeSize ≠ b.runtimeSize ∧ a.vertexOffsets ≠ b.vertexOffsets ∧
     a.vertexBufferSize ≠ b.vertexBufferSize ∧ a.indexBufferSize ≠ b.indexBufferSize ∧
     a.lodCount ≠ b.lodCount) ∧
    (List.zip (modelData sampleModel).lods (sampleRedundant.md (modelData sampleModel)).lods).all
      (fun (a, b) => a.edgeGeometryDataOffset != b.edgeGeometryDataOffset &&
        a.vertexBufferSize != b.vertexBufferSize && a.indexBufferSize != b.indexBufferSize &&
        a.indexDataOffset != b.indexDataOffset) = true ∧
    encodeMdlR sampleModel sampleRedundant ≠ encodeMdl sampleModel := by
  decide +kernel

/-- sanity (test, labelled as such): the executable model, run on the concrete file with every
redundant copy overwritten, reports the specified view and the header fields as stored -/
example : ((fromExisting (encodeMdlR sampleModel sampleRedundant)).map MDL.view).toOption =
      view sampleModel ∧
    (fromExisting (encodeMdlR sampleModel sampleRedundant)).toOption.map
      (fun x => (x.fileHeader.stackSize, x.fileHeader.lodCount,
        x.modelData.lods.map (·.indexDataOffset))) =
      some (0xDEADBEEF, 0xEF, [0xDEADBEEF, 0xDEADBEEF, 0xDEADBEEF]) := by
  decide +kernel

/-- the finding, on one element: the byte 128 under (BlendWeights, Byte4) is reported as
`2·128/255 − 1` by the code's switch, not as the byte value 128 -/
theorem c06_blendweights_byte4_witness :
    (decodeElement #[128, 128, 128, 255] 0 VU.blendWeights VT.byte4 Vertex.default).toOption.map
        (·.boneWeight) = some [998277376, 998277376, 998277376, 0x3F800000] ∧
    (stdDecode VU.blendWeights VT.byte4 [128, 128, 128, 255] Vertex.default).boneWeight =
      [0x43000000, 0x43000000, 0x43000000, 0x437F0000] := by
  decide +kernel

/-! ## every placement of the vertex streams

`encodeMdl` stores the streams of a mesh back to back, mesh after mesh (what the library's writer
produces).  The format addresses every stream through its own `vertex_buffer_offsets[stream]`, so
the theorems above are restated for `encodeMdlP m p` (`Spec/MdlPlaced.lean`): the same model with
the vertex section of every LOD given byte for byte and every stream at an arbitrary offset inside
it — stream-major order, reversed order, gaps / alignment padding, shared bytes — plus arbitrary
bytes in front of each vertex section and between a vertex and its index section.  `WFP m p` =
`WF m`, every stream's bytes are found at its offset inside the section (`PlacedOk`), file < 4 GiB.
What must be reported is the unchanged `view m`. -/

/-- the placed encoder generalises `encodeMdl`: on the back-to-back placement they coincide, and
every well-formed model with that placement is in the quantifier of the placed theorems (so
`c06_parse_encode_partial` is the instance `p = canonP m` of `c06_placed_parse_encode_partial`) -/
theorem c06_placed_canonical (m : AbstractModel) :
    encodeMdlP m (canonP m) = encodeMdl m ∧ (WF m = true → WFP m (canonP m) = true) :=
  ⟨encodeMdlP_canon m, wfp_canon m⟩

/-- The element address for an arbitrary placement: no `u32` overflow, equal to the start of the
LOD's vertex section + the stream's own offset + `offset + stride·k`, and reading there yields
exactly the slice of the abstract stream. -/
theorem c06_placed_element_address (m : AbstractModel) (p : Placement) (h : WFP m p = true)
    (i : Nat) (l : ALod) (hl : m.lods[i]? = some l)
    (d : Nat) (mesh : AMesh) (hm : l.meshes[d]? = some mesh)
    (lod : MeshLod) (hlod : (modelDataP m p).lods[i]? = some lod)
    (row : Mesh) (hrow : (modelDataP m p).meshes[meshBase m i + d]? = some row)
    (e : VertexElement) (he : e ∈ mesh.decl)
    (s : AStream) (hs : mesh.streams[e.stream.toNat]? = some s)
    (k : Nat) (hk : k < mesh.vertexCount.toNat) :
    ∃ a, elementAddress lod row e k.toUInt16 = .ok a ∧
      a.toNat = vOffP m p (dataStartP m p) i + p.off (meshBase m i + d) e.stream.toNat
        + e.offset.toNat + s.stride.toNat * k ∧
      ∀ n, e.offset.toNat + n ≤ s.stride.toNat →
        readAt (encodeMdlP m p).toArray a.toNat n
          = some ((s.data.drop (k * s.stride.toNat + e.offset.toNat)).take n) :=
  element_addressP m p h i l hl d mesh hm lod hlod row hrow e he s hs k hk

/-- **Parsing reports the stored geometry wherever the streams are placed**: for every well-formed
abstract model and every placement of its vertex streams inside the LODs' vertex sections,
`MDL::from_existing` (model) returns the placed layout's header tables and exactly `view m` —
vertices, indices, sub-meshes, shapes, **the raw streams (each read from its own offset)**, names.
Same exclusion as `c06_parse_encode_partial` (finding `c06.blendweights-byte4`). -/
theorem c06_placed_parse_encode_partial (m : AbstractModel) (p : Placement) (h : WFP m p = true)
    (hw : noWeightsByte4 m = true) (v : View) (hv : view m = some v) :
    fromExisting (encodeMdlP m p) =
      .ok { fileHeader := fileHeaderP m p, modelData := modelDataP m p, lods := v.lods,
            affectedBoneNames := v.affectedBoneNames, materialNames := v.materialNames } :=
  parse_encodeP m p h hw v hv

theorem c06_placed_parse_encode_view_partial (m : AbstractModel) (p : Placement)
    (h : WFP m p = true) (hw : noWeightsByte4 m = true) (v : View) (hv : view m = some v) :
    (fromExisting (encodeMdlP m p)).map MDL.view = .ok v :=
  parse_encode_viewP m p h hw v hv

/-- a placement of `sampleModel` that is not back to back: stream 1 first, three bytes of padding,
then stream 0; one byte in front of the vertex section, five between it and the index section -/
def samplePlacement : Placement :=
  { vsecs := [[0, 1, 128, 255, 255, 254, 127, 3] ++ [0xEE, 0xEE, 0xEE] ++
              [0x00, 0x3C, 0x00, 0xC0, 0x01, 0x00, 0x00, 0x3C, 0x00, 0x38, 0xFF, 0x7B,
               0x00, 0x00, 0x00, 0x80, 0x00, 0x7C, 0x00, 0x00, 0x66, 0x2E, 0x00, 0xBC], [], []],
    offs := [[11, 0]], vpre := [[0xAB]], ipre := [[1, 2, 3, 4, 5]] }

/-- non-vacuity of the placed theorems: the hypotheses hold on `sampleModel` / `samplePlacement`,
and that file is not the back-to-back one -/
example : WFP sampleModel samplePlacement = true ∧
    encodeMdlP sampleModel samplePlacement ≠ encodeMdl sampleModel := by
  decide +kernel

/-! ## further non-vacuity instances on `sampleModel` -/

/-- hypotheses of `c06_grammar_roundtrip`, `c06_headers_of_encode`, `c06_names` -/
example : modelDataOk (fileHeader sampleModel) (modelData sampleModel) = true := by decide +kernel

/-- hypotheses of `c06_element_address`: LOD 0, mesh 0, the UV Half2 element at offset 8 of
stream 0 (stride 12), vertex 1 -/
example : ∃ l mesh s, sampleModel.lods[0]? = some l ∧ l.meshes[0]? = some mesh ∧
    (⟨0, 8, 13, 4, 0⟩ : VertexElement) ∈ mesh.decl ∧ mesh.streams[(0 : UInt8).toNat]? = some s ∧
    1 < mesh.vertexCount.toNat ∧ (8 : UInt8).toNat + 4 ≤ s.stride.toNat := by
  refine ⟨_, _, _, rfl, rfl, ?_, rfl, ?_, ?_⟩ <;> decide

end Physis.C06

/-! ### T4: binrw declarations regenerated from the source

`Generated/BinrwMdl.lean` is re-translated from the `#[binrw]` declarations of `src/model.rs` on every
run (`lib/binrw2lean.py`); the `Mdl.P` parsers of `Model/Mdl.lean`, applied to their input, are
`Layout.read` of the regenerated descriptors followed by a pure projection, with a read error as
`.error .fail` (`BinrwTie.Mdl.toR`; `Proofs/BinrwTieMdl.lean`), for all inputs.
`BinrwTie.Mdl.endian` is the regenerated endianness of `ModelData` (`#[brw(little)]`), inside which the
records are read. -/
namespace Physis.C06
open Physis.Binrw Physis.Generated

/-- `ModelFileHeader` (own `#[brw(little)]`; the ambient `.big` is deliberately the wrong one); the two
`map = read_bool_from::<u8>` closures are applied by the projection -/
theorem c06_binrw_ModelFileHeader (l : Bytes) :
    Mdl.parseFileHeader l =
      BinrwTie.Mdl.toR (via BinrwTie.Mdl.fileHeaderOf (Layout.read .big BinrwMdl.modelFileHeader l)) :=
  BinrwTie.Mdl.parseFileHeader_eq_generated l

theorem c06_binrw_Mesh (l : Bytes) :
    Mdl.parseMesh l =
      BinrwTie.Mdl.toR (via BinrwTie.Mdl.meshOf (Layout.read BinrwTie.Mdl.endian BinrwMdl.mesh l)) :=
  BinrwTie.Mdl.parseMesh_eq_generated l

theorem c06_binrw_Submesh (l : Bytes) :
    Mdl.parseSubmesh l =
      BinrwTie.Mdl.toR (via BinrwTie.Mdl.submeshOf (Layout.read BinrwTie.Mdl.endian BinrwMdl.submesh l)) :=
  BinrwTie.Mdl.parseSubmesh_eq_generated l

theorem c06_binrw_ShapeStruct (l : Bytes) :
    Mdl.parseShape l =
      BinrwTie.Mdl.toR (via BinrwTie.Mdl.shapeStructOf (Layout.read BinrwTie.Mdl.endian BinrwMdl.shapeStruct l)) :=
  BinrwTie.Mdl.parseShape_eq_generated l

theorem c06_binrw_ShapeMesh (l : Bytes) :
    Mdl.parseShapeMesh l =
      BinrwTie.Mdl.toR (via BinrwTie.Mdl.shapeMeshOf (Layout.read BinrwTie.Mdl.endian BinrwMdl.shapeMesh l)) :=
  BinrwTie.Mdl.parseShapeMesh_eq_generated l

theorem c06_binrw_ShapeValue (l : Bytes) :
    Mdl.parseShapeValue l =
      BinrwTie.Mdl.toR (via BinrwTie.Mdl.shapeValueOf (Layout.read BinrwTie.Mdl.endian BinrwMdl.shapeValue l)) :=
  BinrwTie.Mdl.parseShapeValue_eq_generated l

end Physis.C06

/-! ### T4 (continued): `BoneTable` -/
namespace Physis.C06
open Physis.Binrw Physis.Generated

/-- `BoneTable`: `[u16; 64]`, u8 count, `pad_after = 3` -/
theorem c06_binrw_BoneTable (l : Bytes) :
    Mdl.parseBoneTable l =
      BinrwTie.Mdl.toR (via BinrwTie.Mdl.boneTableOf (Layout.read BinrwTie.Mdl.endian BinrwMdl.boneTable l)) :=
  BinrwTie.Mdl.parseBoneTable_eq_generated l

end Physis.C06
