import PhysisModel.Proofs.MdlLayout
/-!
# C06 — model parsing yields the stored geometry for every vertex layout

Property theorems only.  `Spec/Mdl.lean` defines the format (`encodeMdl`) and what must be reported
(`view`); `Model/Mdl.lean` is the executable model of `MDL::from_existing`; helper lemmas live in
`Proofs/Mdl*.lean`, `Proofs/SoftFloat.lean`.
-/
namespace Physis.C06
open Physis Physis.Mdl Physis.Spec.Mdl

/-- A 17-slot vertex-declaration block with 1..16 valid elements (none but possibly the first
carrying the 0xFF marker as its stream) is read back exactly, and the reader stops at the
136-byte boundary, whatever follows. -/
theorem c06_decl_block_roundtrip (d : List VertexElement) (h : declOk d = true) (rest : Bytes) :
    parseDecl (encDecl d ++ rest) = .ok (d, rest) :=
  parseDecl_enc d h rest

/-- non-vacuity: a three-element declaration (Position Single3, BlendWeights ByteFloat4, UV Half4) -/
example : declOk [⟨0, 0, 2, 0, 0⟩, ⟨0, 12, 8, 1, 0⟩, ⟨1, 0, 14, 4, 0⟩] = true := by decide

/-- The whole runtime block (declarations, `ModelHeader`, every table, version-dependent bone
tables and bone-map size) is read back field by field from its encoding, for every `ModelData`
value consistent with its own count fields. -/
theorem c06_grammar_roundtrip (fh : FileHeader) (d : ModelData) (h : modelDataOk fh d = true)
    (rest : Bytes) : parseModelData fh (encModelData fh.version d ++ rest) = .ok (d, rest) :=
  parseModelData_enc fh d h rest

/-- On an encoded abstract model the reader's two header parses return exactly the layout the
format definition computed (file header, then the runtime tables, leaving the vertex / index
sections). -/
theorem c06_headers_of_encode (m : AbstractModel) (h : WF m = true) :
    parseFileHeader (encodeMdl m) =
        .ok (fileHeader m, encModelData m.version (modelData m) ++ sections m) ∧
    parseModelData (fileHeader m) (encModelData m.version (modelData m) ++ sections m) =
        .ok (modelData m, sections m) :=
  ⟨parse_fileHeader m, parse_modelData m h⟩

/-- Bone and material names are exactly the stored names (Latin-1 bytes pushed as `char`s),
taken from the string table at the offsets in the name tables. -/
theorem c06_names (m : AbstractModel) (h : WF m = true) :
    (modelData m).boneNameOffsets.mapM (nameAt (modelData m).header.strings) =
        (.ok (m.bones.map (·.flatMap latin1Utf8)) : R (List Bytes)) ∧
    (modelData m).materialNameOffsets.mapM (nameAt (modelData m).header.strings) =
        (.ok (m.materials.map (·.flatMap latin1Utf8)) : R (List Bytes)) :=
  ⟨bone_names m h, material_names m h⟩

end Physis.C06
