import PhysisModel.Model.Blowfish
import PhysisModel.Spec.Blowfish
/-!
# C11 — the SqexArg cipher is standard Blowfish; decryption inverts encryption
-/
namespace Physis.C11
open Physis Physis.Blowfish Physis.Generated

set_option maxRecDepth 100000 in
/-- The tables in `src/blowfish/constants.rs` are the first 1042 words of the hexadecimal expansion
of the fractional part of π (re-proved on every run against the freshly extracted tables). -/
theorem c11_tables_are_pi :
    blowfishP.toList ++ blowfishS0.toList ++ blowfishS1.toList ++ blowfishS2.toList ++ blowfishS3.toList
      = Spec.Blowfish.piWords 1042 := by
  decide +kernel

end Physis.C11
