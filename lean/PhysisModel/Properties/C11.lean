import PhysisModel.Proofs.Blowfish
/-!
# C11 — the SqexArg cipher is standard Blowfish; decryption inverts encryption

Property theorems only (helper lemmas: `Proofs/Blowfish.lean`).  Model: `Model/Blowfish.lean`
(`Physis.Blowfish`, mirrors `src/blowfish/mod.rs`, tables from `Generated/BlowfishTables.lean`).
Specification: `Spec/Blowfish.lean` (`Physis.Spec.Blowfish`: textbook cipher, π digits computed by
Machin's formula, zero padding + ECB on little-endian words).

Published test vectors: all 33 distinct 8-byte-key ECB vectors of Schneier's `vectors.txt` are in
`corpus/C11/schneier-ecb.case`; on every run the driver checks that the *specification* reproduces
them (both directions) and the real code is compared with the published ciphertext.  They are not
kernel-checked `example`s: evaluating one key schedule (521 block encryptions through lazily
updated tables) takes the kernel minutes (measured: 137 encryptions 43–210 s).
-/
namespace Physis.C11
open Physis Physis.Blowfish Physis.Generated
open Physis.Spec.Blowfish (piWords piWordsStormer pad8 ecb subkeys encryptBlock decryptBlock)

/-! ## the tables -/

/-- The tables in `src/blowfish/constants.rs` (P-array, then the four S-boxes) are the first
18 + 4·256 words of the hexadecimal expansion of the fractional part of π, as computed by the
specification (re-proved on every run against the freshly extracted tables). -/
theorem c11_tables_are_pi :
    blowfishP.toList ++ blowfishS0.toList ++ blowfishS1.toList ++ blowfishS2.toList ++ blowfishS3.toList
      = piWords 1042 :=
  tables_are_pi

set_option maxRecDepth 100000 in
/-- Cross-check of the specification's π: Machin's formula with 128 guard bits and Størmer's
formula with 96 guard bits give the same 1042 words. -/
theorem c11_pi_cross_check : piWords 1042 = piWordsStormer 1042 := by
  decide +kernel

/-- sanity (a test, labelled as such): the expansion starts 243F6A88 85A308D3 13198A2E 03707344 -/
example : piWords 4 = [0x243F6A88, 0x85A308D3, 0x13198A2E, 0x03707344] := by decide +kernel

/-- `ROUNDS = 16` and `KEYBITS = 64 >> 3 = 8` in the source (the model's loop bounds / key cycle) -/
theorem c11_source_constants : blowfishRounds = 16 ∧ blowfishKeyBytes = 8 := by decide

/-! ## Feistel structure — for arbitrary tables -/

/-- `decrypt_pair` undoes `encrypt_pair`, whatever the P-array and S-boxes contain. -/
theorem c11_pair_inverse (st : State) (l r : UInt32) :
    decryptPair st (encryptPair st l r).1 (encryptPair st l r).2 = (l, r) :=
  decryptPair_encryptPair st l r

/-- … and `encrypt_pair` undoes `decrypt_pair`: both are bijections of the 64-bit block. -/
theorem c11_pair_inverse' (st : State) (l r : UInt32) :
    encryptPair st (decryptPair st l r).1 (decryptPair st l r).2 = (l, r) :=
  encryptPair_decryptPair st l r

/-- The unrolled `encrypt_pair` / `decrypt_pair` are the textbook 16-round block functions
(swap every round, undo the last swap, whitening) on the same tables. -/
theorem c11_pair_is_textbook (st : State) (l r : UInt32) :
    encryptPair st l r = encryptBlock (toSpec st) (l, r) ∧
    decryptPair st l r = decryptBlock (toSpec st) (l, r) :=
  ⟨encryptPair_eq_spec st l r, decryptPair_eq_spec st l r⟩

/-- consequence for the specification itself: textbook decryption inverts textbook encryption -/
theorem c11_spec_block_inverse (t : Spec.Blowfish.Tables) (x : UInt32 × UInt32) :
    decryptBlock t (encryptBlock t x) = x := by
  have h := decryptPair_encryptPair (ofSpec t) x.1 x.2
  simp only [encryptPair_eq_spec, decryptPair_eq_spec, toSpec_ofSpec, Prod.eta] at h
  exact h

/-! ## block mode — for arbitrary tables, every message length -/

/-- `encrypt` never fails and outputs the message zero-padded to a multiple of 8 bytes,
enciphered block by block on the block's two little-endian words. -/
theorem c11_encrypt_shape (st : State) (m : Bytes) :
    encrypt st m = some (ecb (fun x => encryptPair st x.1 x.2) (pad8 m)) := by
  rw [encrypt, padBuffer_eq, blockLoop_eq _ _ (pad8_length_mod m)]

/-- the same for `decrypt` (it pads its input too; a ciphertext is already a multiple of 8) -/
theorem c11_decrypt_shape (st : State) (c : Bytes) :
    decrypt st c = some (ecb (fun x => decryptPair st x.1 x.2) (pad8 c)) := by
  rw [decrypt, padBuffer_eq, blockLoop_eq _ _ (pad8_length_mod c)]

/-- the ciphertext is as long as the padded message -/
theorem c11_encrypt_length (st : State) (m : Bytes) :
    (encrypt st m).map List.length = some (pad8 m).length := by
  rw [c11_encrypt_shape, Option.map_some, ecb_length _ _ (pad8_length_mod m)]

/-- Decrypting the output of `encrypt` returns the padded message — for every state (any tables). -/
theorem c11_decrypt_encrypt_state (st : State) (m : Bytes) :
    (encrypt st m).bind (decrypt st) = some (pad8 m) := by
  have hl : (ecb (fun x => encryptPair st x.1 x.2) (pad8 m)).length % 8 = 0 := by
    rw [ecb_length _ _ (pad8_length_mod m)]; exact pad8_length_mod m
  rw [c11_encrypt_shape, Option.bind_some, c11_decrypt_shape, pad8_of_mod _ hl]
  rw [ecb_inverse _ _ (fun x => by simp only [decryptPair_encryptPair]) _ (pad8_length_mod m)]

/-! ## keys -/

/-- `Blowfish::new` does not panic on a key of at least 8 bytes. -/
theorem c11_new_total (key : Bytes) (h : 8 ≤ key.length) : (Blowfish.new key).isSome := by
  rw [new_standard key h]; rfl

example : (Blowfish.new [1, 2, 3, 4, 5, 6, 7, 8, 9]).isSome := c11_new_total _ (by decide)

/-- **Decryption inverts encryption**: for every key of at least 8 bytes and every message,
`new(key)` succeeds, `encrypt` succeeds, and `decrypt` of its output is the padded message. -/
theorem c11_decrypt_encrypt (key m : Bytes) (h : 8 ≤ key.length) :
    (Blowfish.new key).bind (fun st => (encrypt st m).bind (decrypt st)) = some (pad8 m) := by
  rw [new_standard key h, Option.bind_some, c11_decrypt_encrypt_state]

example : (Blowfish.new [0x74, 0x65, 0x73, 0x74, 0x5f, 0x63, 0x61, 0x73, 0x65]).bind
      (fun st => (encrypt st [0x68, 0x65, 0x6c, 0x6c, 0x6f]).bind (decrypt st))
    = some [0x68, 0x65, 0x6c, 0x6c, 0x6f, 0, 0, 0] :=
  c11_decrypt_encrypt _ _ (by decide)

/-- Only the first 8 key bytes are significant. -/
theorem c11_key_prefix (key : Bytes) (h : 8 ≤ key.length) :
    Blowfish.new key = Blowfish.new (key.take 8) := by
  have h8 : 8 ≤ (key.take 8).length := by simp only [List.length_take]; omega
  rw [new_standard key h, new_standard (key.take 8) h8]
  simp only [List.take_take, Nat.min_self]

example : Blowfish.new [1, 2, 3, 4, 5, 6, 7, 8, 9, 10] = Blowfish.new [1, 2, 3, 4, 5, 6, 7, 8] :=
  c11_key_prefix _ (by decide)

/-- **Standard Blowfish**: for an 8-byte key the state built by `Blowfish::new` is exactly the
textbook subkey set (π tables XOR cycled key, 521 successive encryptions), and by
`c11_pair_is_textbook` its block functions are the textbook 16 rounds. -/
theorem c11_is_standard (key : Bytes) (h : key.length = 8) :
    Blowfish.new key = some (ofSpec (subkeys key (by omega))) := by
  have := new_standard key (by omega)
  simp only [List.take_of_length_le (Nat.le_of_eq h)] at this
  exact this

example : Blowfish.new [0xFE, 0xDC, 0xBA, 0x98, 0x76, 0x54, 0x32, 0x10]
    = some (ofSpec (subkeys [0xFE, 0xDC, 0xBA, 0x98, 0x76, 0x54, 0x32, 0x10] (by decide))) :=
  c11_is_standard _ (by decide)

/-- The whole statement for `encrypt`: for every key of at least 8 bytes and every message,
`Blowfish::new(key).encrypt(m)` is the specification's SqexArg encryption — zero padding, then
standard Blowfish (π tables, 16 rounds, keyed with the first 8 key bytes) on every block's two
little-endian words.  This is `model = expected` of the correspondence. -/
theorem c11_encrypt_is_standard (key m : Bytes) (h : 8 ≤ key.length) :
    encryptWith key m =
      some (Spec.Blowfish.encrypt (key.take 8) (by simp only [List.length_take]; omega) m) := by
  have e (t : Spec.Blowfish.Tables) :
      (fun x : UInt32 × UInt32 => encryptPair (ofSpec t) x.1 x.2) = encryptBlock t := by
    funext x; rw [encryptPair_eq_spec, toSpec_ofSpec]
  rw [encryptWith, new_standard key h, Option.bind_some, c11_encrypt_shape, e, Spec.Blowfish.encrypt]

/-- … and for `decrypt`. -/
theorem c11_decrypt_is_standard (key c : Bytes) (h : 8 ≤ key.length) :
    decryptWith key c =
      some (Spec.Blowfish.decrypt (key.take 8) (by simp only [List.length_take]; omega) c) := by
  have e (t : Spec.Blowfish.Tables) :
      (fun x : UInt32 × UInt32 => decryptPair (ofSpec t) x.1 x.2) = decryptBlock t := by
    funext x; rw [decryptPair_eq_spec, toSpec_ofSpec]
  rw [decryptWith, new_standard key h, Option.bind_some, c11_decrypt_shape, e, Spec.Blowfish.decrypt]

example : encryptWith [1, 2, 3, 4, 5, 6, 7, 8, 9] [0xAA]
    = some (Spec.Blowfish.encrypt [1, 2, 3, 4, 5, 6, 7, 8] (by decide) [0xAA]) :=
  c11_encrypt_is_standard _ _ (by decide)

end Physis.C11
