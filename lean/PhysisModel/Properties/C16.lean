import PhysisModel.Proofs.Cmp
import PhysisModel.Proofs.Layer
/-!
# C16 — auxiliary asset decoders return the stored records
Property theorems only; helper lemmas live in `Proofs/`.
-/
namespace Physis.C16
open Physis

/-! ## racial scaling table (`src/cmp.rs`) -/

/-- `CMP::from_existing` returns exactly the stored rows (all 14 values of every row, in file
order), for every well-formed file: any 0x2A800-byte head, any number of rows, any left-over
bytes shorter than a row. -/
theorem c16_cmp (f : Spec.Cmp.File) (h : Spec.Cmp.WF f) :
    Cmp.fromExisting (Spec.Cmp.encode f) = .ok f.rows := by
  obtain ⟨hh, hr, ht⟩ := h
  have hlen : (Spec.Cmp.encode f).length = 0x2a800 + (56 * f.rows.length + f.tail.length) := by
    simp only [Spec.Cmp.encode, List.length_append, Cmp.rows_length _ hr, hh, Spec.Cmp.headerSize]
  have hdiv : (56 * f.rows.length + f.tail.length) / 56 = f.rows.length := by
    simp only [Spec.Cmp.rowWords] at ht; omega
  have hseek : Rd.seekTo (Spec.Cmp.encode f) 0x2a800 = f.rows.flatMap Spec.Cmp.encodeRow ++ f.tail := by
    have := Rd.seekTo_append f.head (f.rows.flatMap Spec.Cmp.encodeRow ++ f.tail)
    rw [hh] at this; exact this
  simp only [Cmp.fromExisting, hlen, hseek, Cmp.rowSize]
  rw [if_neg (by omega), Nat.add_sub_cancel_left, hdiv, Cmp.readRows_encode _ _ hr]

/-- non-vacuity: two rows behind a zero head, 3 stray bytes -/
example : Cmp.fromExisting (Spec.Cmp.encode ⟨List.replicate 0x2a800 0,
    [[1,2,3,4,5,6,7,8,9,10,11,12,13,14], [0x3F800000,0,0,0,0,0,0,0,0,0,0,0,0,0xFFFFFFFF]], [7,7,7]⟩)
    = .ok [[1,2,3,4,5,6,7,8,9,10,11,12,13,14], [0x3F800000,0,0,0,0,0,0,0,0,0,0,0,0,0xFFFFFFFF]] :=
  c16_cmp _ ⟨List.length_replicate, by simp [Spec.Cmp.rowWords], by simp [Spec.Cmp.rowWords]⟩

/-! ## layer groups without layers (`src/layer/mod.rs`) -/

/-- `LayerGroup::write_to_buffer` on a group with one chunk and no layers produces the documented
layout (that of the repository's `empty_planlive.lgb`), for any ids and any NUL-free name. -/
theorem c16_layer_write_layout (g : Spec.Layer.EmptyGroup) (h : ∀ c ∈ g.name, c ≠ 0) :
    Layer.writeToBuffer ⟨g.fileId, g.chunkId, g.layerGroupId, g.name⟩ = .ok (Spec.Layer.encode g) :=
  Layer.write_eq_encode g h

/-- `LayerGroup::from_existing` returns the stored file id, chunk id, layer-group id and name of
every well-formed layer-less file. -/
theorem c16_layer_parse_encode (g : Spec.Layer.EmptyGroup) (h : Spec.Layer.WF g) :
    Layer.fromExisting (Spec.Layer.encode g) = .ok ⟨g.fileId, g.chunkId, g.layerGroupId, g.name⟩ :=
  Layer.read_encode g h

/-- an empty layer group written by the library parses back to the same ids and name
(any ids, any ASCII name). -/
theorem c16_layer_empty_roundtrip (g : Spec.Layer.EmptyGroup) (h : Spec.Layer.WF g) :
    (match Layer.writeToBuffer ⟨g.fileId, g.chunkId, g.layerGroupId, g.name⟩ with
      | .ok file => Layer.fromExisting file
      | _ => .panic) = .ok ⟨g.fileId, g.chunkId, g.layerGroupId, g.name⟩ := by
  rw [c16_layer_write_layout g (fun c m => (h.1 c m).1)]
  exact c16_layer_parse_encode g h

/-- the repository's sample file: LGB1 / LGP1 / 261 / "PlanLive" -/
example : Spec.Layer.encode ⟨0x3142474c, 0x3150474c, 261, [0x50,0x6c,0x61,0x6e,0x4c,0x69,0x76,0x65]⟩ =
    [0x4c,0x47,0x42,0x31, 0x2d,0,0,0, 1,0,0,0, 0x4c,0x47,0x50,0x31, 0x18,0,0,0, 5,1,0,0, 0x10,0,0,0,
     0x10,0,0,0, 0,0,0,0, 0x50,0x6c,0x61,0x6e,0x4c,0x69,0x76,0x65, 0] := by decide
example : Spec.Layer.WF ⟨0x3142474c, 0x3150474c, 261, [0x50,0x6c,0x61,0x6e,0x4c,0x69,0x76,0x65]⟩ := by decide

end Physis.C16
