import PhysisModel.Proofs.PbdParse
import PhysisModel.Proofs.PbdLayout
import PhysisModel.Proofs.Cmp
import PhysisModel.Proofs.Layer
import PhysisModel.Proofs.Tera
import PhysisModel.Proofs.TeraFloat
import PhysisModel.Proofs.Pbd
import PhysisModel.Proofs.HavokInt
import PhysisModel.Proofs.HavokBits
import PhysisModel.Proofs.HavokExtract
import PhysisModel.Proofs.HavokFlat
import PhysisModel.Proofs.Sklb
import PhysisModel.Proofs.BinrwTieAux
/-!
# C16 — auxiliary asset decoders return the stored records
Property theorems only; helper lemmas live in `Proofs/`.
-/
namespace Physis.C16
open Physis

/-! ## racial scaling table (`src/cmp.rs`) -/

/-- `CMP::from_existing` returns exactly the stored rows (all 14 values of every row, in file
order), for every well-formed file: any 0x2A800-byte head, any number of rows, any left-over
bytes shorter than a row. -/
theorem c16_cmp (f : Spec.Cmp.File) (h : Spec.Cmp.WF f) :
    Cmp.fromExisting (Spec.Cmp.encode f) = .ok f.rows := by
  obtain ⟨hh, hr, ht⟩ := h
  have hlen : (Spec.Cmp.encode f).length = 0x2a800 + (56 * f.rows.length + f.tail.length) := by
    simp only [Spec.Cmp.encode, List.length_append, Cmp.rows_length _ hr, hh, Spec.Cmp.headerSize]
  have hdiv : (56 * f.rows.length + f.tail.length) / 56 = f.rows.length := by
    simp only [Spec.Cmp.rowWords] at ht; omega
  have hseek : Rd.seekTo (Spec.Cmp.encode f) 0x2a800 = f.rows.flatMap Spec.Cmp.encodeRow ++ f.tail := by
    have := Rd.seekTo_append f.head (f.rows.flatMap Spec.Cmp.encodeRow ++ f.tail)
    rw [hh] at this; exact this
  simp only [Cmp.fromExisting, hlen, hseek, Cmp.rowSize]
  rw [if_neg (by omega), Nat.add_sub_cancel_left, hdiv, Cmp.readRows_encode _ _ hr]

/-- non-vacuity: two rows behind a zero head, 3 stray bytes -/
example : Cmp.fromExisting (Spec.Cmp.encode ⟨List.replicate 0x2a800 0,
    [[1,2,3,4,5,6,7,8,9,10,11,12,13,14], [0x3F800000,0,0,0,0,0,0,0,0,0,0,0,0,0xFFFFFFFF]], [7,7,7]⟩)
    = .ok [[1,2,3,4,5,6,7,8,9,10,11,12,13,14], [0x3F800000,0,0,0,0,0,0,0,0,0,0,0,0,0xFFFFFFFF]] :=
  c16_cmp _ ⟨List.length_replicate, by simp [Spec.Cmp.rowWords], by simp [Spec.Cmp.rowWords]⟩

/-! ## terrain (`src/tera.rs`)

f32 values are u32 bit patterns, i16 coordinates u16 bit patterns.  The binary32 arithmetic of the
reader (`plate_size as f32 * (c as f32 + 0.5)`) and of the writer (`((p / 128.0) - 0.5) as i16`) is
modelled bit-exactly (`Model/F32Arith.lean`); that it lands exactly on / comes back exactly from the
grid value `128c + 64` is proved for **all 65 536 coordinates** by bit-blasting
(`Proofs/TeraFloat.lean`, `bv_decide (timeout := 300)`, one rounding per lemma). -/

/-- the reader returns, for every stored position in file order, the plate computed by
`plate_size as f32 * (coord as f32 + 0.5)` and the file name `%04d.mdl` of its index — any header
values, any plate size, any number of plates below 2^32. -/
theorem c16_tera_parse_structure (f : Spec.Tera.File) (h : Spec.Tera.WF f) :
    Tera.fromExisting (Spec.Tera.encode f) = some (Tera.platesFrom f.plateSize 0 f.positions) :=
  Tera.fromExisting_encode f h

/-- reader arithmetic on the grid: `128 as f32 * (c as f32 + 0.5)` is the float `128c + 64`, all `c` -/
theorem c16_tera_read_exact (c : UInt16) : Tera.centre 128 c = Spec.Tera.gridPos c :=
  TeraFloat.centre_grid c

/-- writer arithmetic on the grid: `((128c + 64) / 128 − 0.5) as i16 = c`, all `c` -/
theorem c16_tera_write_exact (c : UInt16) : Tera.coord (Spec.Tera.gridPos c) = c :=
  TeraFloat.coord_grid c

/-- **terrain plate positions are returned exactly as stored**: a file with plate size 128, any other
header values and any list of fewer than 2^32 grid coordinates parses to exactly the plates at
`(128x + 64, 128y + 64)` named `0000.mdl`, `0001.mdl`, … -/
theorem c16_tera_parse_encode (version clip unknown : UInt32) (ps : List (UInt16 × UInt16))
    (h : ps.length < 2 ^ 32) :
    (Tera.fromExisting (Spec.Tera.encode ⟨version, 128, clip, unknown, ps⟩)).map (·.map Tera.toSpec)
      = some (Spec.Tera.gridPlates ps) := by
  rw [c16_tera_parse_structure ⟨version, 128, clip, unknown, ps⟩ h]
  simp only [Option.map_some, Spec.Tera.gridPlates,
    Tera.platesFrom_grid ps 0 (fun p _ => ⟨c16_tera_read_exact p.1, c16_tera_read_exact p.2⟩)]

/-- the writer stores a grid terrain in the documented layout (version 0x1000003, plate size 128,
clip 0.0, 1.0, 32 reserved bytes, the grid coordinates) -/
theorem c16_tera_write_layout (ps : List (UInt16 × UInt16)) :
    Tera.writeToBuffer ((Spec.Tera.gridPlates ps).map Tera.ofSpec)
      = Spec.Tera.encode ⟨0x1000003, 128, 0, 0x3F800000, ps⟩ :=
  Tera.write_grid ps (fun p _ => ⟨c16_tera_write_exact p.1, c16_tera_write_exact p.2⟩)

/-- **a terrain on the 128-unit grid written by the library parses back to the same plates**
(every i16 coordinate, any number of plates below 2^32) -/
theorem c16_tera_roundtrip (ps : List (UInt16 × UInt16)) (h : ps.length < 2 ^ 32) :
    (Tera.fromExisting (Tera.writeToBuffer ((Spec.Tera.gridPlates ps).map Tera.ofSpec))).map (·.map Tera.toSpec)
      = some (Spec.Tera.gridPlates ps) := by
  rw [c16_tera_write_layout ps]
  exact c16_tera_parse_encode _ _ _ ps h

/-- a concrete instance: coordinates (0, −1), (32767, −32768) -/
example : (Tera.fromExisting (Tera.writeToBuffer ((Spec.Tera.gridPlates [(0, 0xFFFF), (0x7FFF, 0x8000)]).map Tera.ofSpec))).map
    (·.map Tera.toSpec) = some (Spec.Tera.gridPlates [(0, 0xFFFF), (0x7FFF, 0x8000)]) :=
  c16_tera_roundtrip _ (by decide)
/-- the grid value of coordinate −1 is −64.0 = 0xC2800000, of 0 is 64.0 = 0x42800000 -/
example : Spec.Tera.gridPos 0xFFFF = 0xC2800000 ∧ Spec.Tera.gridPos 0 = 0x42800000 := by decide

/-! ## pre-bone deformer (`src/pbd.rs`)

Full statement (design §6.16):
  `c16_pbd_chain (f) (a b)` : `WF f → HasSibling a →
      getDeformMatrices (parse (encode f)) a b = some (bonesAlong (parentChain f a b))`.
It is proved in two halves.  Here: the chain walk on the **parsed records** (`Pbd.toModel f` = the header
holding exactly the items, links, bone names and matrices of `f`), for every forest, every pair of body ids,
with termination of the Rust `loop` (its step counter `steps < links.len()` never trips on a forest) — this theorem keeps
its historical name `c16_pbd_chain_partial`.  At the end of this file: the byte-level half
`fromExisting (encode f) = .ok (toModel f)` (`c16_pbd_parse_encode`: offset tables, out-of-line names and
matrices, padding) and the composition `c16_pbd_chain`, plus the same for files in any layout the reader
accepts (`c16_pbd_parse_layout`, `c16_pbd_parse_placed`, `c16_pbd_chain_placed`). -/

/-- `get_deform_matrices(a, b)` returns the named matrices of the first item with body id `a`, then
those of its ancestors, nearest first, up to but excluding the item with body id `b` (through the root
when `b` is not an ancestor) — for every forest, any link / item permutation, duplicate ids included. -/
theorem c16_pbd_chain_partial (f : Spec.Pbd.File) (a b : UInt16) (hwf : Spec.Pbd.WFTree f)
    (start : Spec.Pbd.Item) (hfind : Spec.Pbd.findItem f a = some start) (hab : a ≠ b)
    (hs : Spec.Pbd.HasSibling f start) :
    ∃ bones, Spec.Pbd.deformBones f start b = some bones ∧
      Pbd.getDeformMatrices (Pbd.toModel f) a b = .ok (bones.map Pbd.convBone) := by
  obtain ⟨hlen, hdef, hitems, hforest⟩ := hwf
  have hmem : start ∈ f.items := List.mem_of_find?_eq_some hfind
  obtain ⟨hli, hlis⟩ := hitems start hmem
  -- the start link
  have hnext : f.links[start.linkIndex.toNat]? = some (f.links[start.linkIndex.toNat]) :=
    List.getElem?_eq_getElem hli
  have hsib : (f.links[start.linkIndex.toNat]).nextSibling ≠ Spec.Pbd.none16 := by
    unfold Spec.Pbd.HasSibling at hs; rw [hnext] at hs; exact hs
  -- its chain ends at a root within `links.length` steps
  have hsome := hforest _ hli
  obtain ⟨L, hL⟩ := Option.isSome_iff_exists.mp hsome
  -- … which is exactly the number of parent steps the code's step counter allows
  have hpos : f.links.length - 1 + 1 = f.links.length := by omega
  obtain ⟨above, habove, hwalk⟩ := Pbd.walk_spec f b hdef (f.links.length - 1) _ _ (by rw [hpos]; exact hL)
    (f.links[start.linkIndex.toNat]) start [] hnext
  refine ⟨start.bones ++ (above.takeWhile (·.bodyId != b)).flatMap (·.bones), ?_, ?_⟩
  · simp [Spec.Pbd.deformBones, hL, habove]
  · have hfind' : (Pbd.toModel f).items.find? (·.bodyId == a) = some (Pbd.convItem start) := by
      show (f.items.map Pbd.convItem).find? _ = _
      rw [List.find?_map]
      have : ((fun x : Pbd.Item => x.bodyId == a) ∘ Pbd.convItem) = (fun x : Spec.Pbd.Item => x.bodyId == a) := rfl
      rw [this]
      unfold Spec.Pbd.findItem at hfind
      rw [hfind]; rfl
    have hlm : (Pbd.toModel f).links[Pbd.i16AsUsize (Pbd.convItem start).linkIndex]? =
        some (Pbd.convLink (f.links[start.linkIndex.toNat])) := by
      show (f.links.map Pbd.convLink)[Pbd.i16AsUsize start.linkIndex]? = _
      rw [Pbd.i16AsUsize_small _ hlis, List.getElem?_map, hnext]; rfl
    have hsib' : (Pbd.convLink (f.links[start.linkIndex.toNat])).nextSibling ≠ 0xFFFF := hsib
    have hlen' : (Pbd.toModel f).links.length = f.links.length := by
      show (f.links.map Pbd.convLink).length = _
      simp
    simp only [Pbd.getDeformMatrices, hab, if_false, hfind', hlm, hsib', hlen', hwalk, List.nil_append]

/-- a concrete forest: root (id 1) ← child (id 2) ← grandchild (id 3), links stored in reverse order -/
def exampleForest : Spec.Pbd.File :=
  ⟨[⟨1, 2, [⟨[0x61], [1,0,0,0,0,1,0,0,0,0,1,0]⟩]⟩, ⟨2, 1, [⟨[0x62], [2,0,0,0,0,2,0,0,0,0,2,0]⟩]⟩,
    ⟨3, 0, [⟨[0x63], [3,0,0,0,0,3,0,0,0,0,3,0]⟩]⟩],
   [⟨1, 0xFFFF, 0, 2⟩, ⟨2, 0, 1, 1⟩, ⟨0xFFFF, 1, 2, 0⟩]⟩
example : Spec.Pbd.WFTree exampleForest := by decide
example : Spec.Pbd.HasSibling exampleForest ⟨3, 0, [⟨[0x63], [3,0,0,0,0,3,0,0,0,0,3,0]⟩]⟩ := by decide
/-- 3 → 1: the grandchild's and the child's bones, not the root's -/
example : Pbd.getDeformMatrices (Pbd.toModel exampleForest) 3 1 =
    .ok [⟨[0x63], [3,0,0,0,0,3,0,0,0,0,3,0]⟩, ⟨[0x62], [2,0,0,0,0,2,0,0,0,0,2,0]⟩] := by decide
/-- 3 → 9 (not an ancestor): everything up to and including the root -/
example : Pbd.getDeformMatrices (Pbd.toModel exampleForest) 3 9 =
    .ok [⟨[0x63], [3,0,0,0,0,3,0,0,0,0,3,0]⟩, ⟨[0x62], [2,0,0,0,0,2,0,0,0,0,2,0]⟩,
         ⟨[0x61], [1,0,0,0,0,1,0,0,0,0,1,0]⟩] := by decide

/-! ## layer groups without layers (`src/layer/mod.rs`) -/

/-- `LayerGroup::write_to_buffer` on a group with one chunk and no layers produces the documented
layout (that of the repository's `empty_planlive.lgb`), for any ids and any NUL-free name. -/
theorem c16_layer_write_layout (g : Spec.Layer.EmptyGroup) (h : ∀ c ∈ g.name, c ≠ 0) :
    Layer.writeToBuffer ⟨g.fileId, g.chunkId, g.layerGroupId, g.name⟩ = .ok (Spec.Layer.encode g) :=
  Layer.write_eq_encode g h

/-- `LayerGroup::from_existing` returns the stored file id, chunk id, layer-group id and name of
every well-formed layer-less file. -/
theorem c16_layer_parse_encode (g : Spec.Layer.EmptyGroup) (h : Spec.Layer.WF g) :
    Layer.fromExisting (Spec.Layer.encode g) = .ok ⟨g.fileId, g.chunkId, g.layerGroupId, g.name⟩ :=
  Layer.read_encode g h

/-- an empty layer group written by the library parses back to the same ids and name
(any ids, any ASCII name). -/
theorem c16_layer_empty_roundtrip (g : Spec.Layer.EmptyGroup) (h : Spec.Layer.WF g) :
    (match Layer.writeToBuffer ⟨g.fileId, g.chunkId, g.layerGroupId, g.name⟩ with
      | .ok file => Layer.fromExisting file
      | _ => .panic) = .ok ⟨g.fileId, g.chunkId, g.layerGroupId, g.name⟩ := by
  rw [c16_layer_write_layout g (fun c m => (h.1 c m).1)]
  exact c16_layer_parse_encode g h

/-- the repository's sample file: LGB1 / LGP1 / 261 / "PlanLive" -/
example : Spec.Layer.encode ⟨0x3142474c, 0x3150474c, 261, [0x50,0x6c,0x61,0x6e,0x4c,0x69,0x76,0x65]⟩ =
    [0x4c,0x47,0x42,0x31, 0x2d,0,0,0, 1,0,0,0, 0x4c,0x47,0x50,0x31, 0x18,0,0,0, 5,1,0,0, 0x10,0,0,0,
     0x10,0,0,0, 0,0,0,0, 0x50,0x6c,0x61,0x6e,0x4c,0x69,0x76,0x65, 0] := by decide
example : Spec.Layer.WF ⟨0x3142474c, 0x3150474c, 261, [0x50,0x6c,0x61,0x6e,0x4c,0x69,0x76,0x65]⟩ := by decide

/-! ## skeletons: Havok binary tag files (`src/havok/binary_tag_file_reader.rs`) -/

/-- `read_packed_int` returns every `i32` other than `i32::MIN` that the format's packed encoding
holds, written in any admissible number of bytes (`w` = the writer's minimum width, at most five
bytes are ever produced), and stops exactly behind it. -/
theorem c16_packed_int (w : Nat) (n : Int) (r : Bytes) (h : Spec.HavokTag.InRange n) :
    Havok.readPackedInt (Spec.HavokTag.encodePackedIntW w n ++ r) = some (n, r) :=
  Havok.readPackedInt_encode w n r h

example : Spec.HavokTag.InRange (-8192) := by decide
example : Spec.HavokTag.encodePackedInt (-8192) = [0x81, 0x80, 0x01] := by decide
example : Spec.HavokTag.encodePackedIntW 5 300 = [0xD8, 0x84, 0x80, 0x80, 0x00] := by decide

/-- `read_bit_field(count)` consumes `ceil(count / 8)` bytes (`count` below 2^32 - 7) and returns, for
`i < count`, bit `i mod 8` of byte `i div 8`, least significant bit first. -/
theorem c16_bitfield (count : Nat) (b : Bytes) (hc : count + 7 < 2 ^ 32) (hb : (count + 7) / 8 ≤ b.length) :
    Havok.readBitField count b =
      some (((b.take ((count + 7) / 8)).flatMap (Havok.lsb · 8)).take count, b.drop ((count + 7) / 8)) :=
  Havok.readBitField_eq count b hc hb

/-- the existence bits of `n` members take exactly `ceil(n / 8)` bytes and are read back; the reader
stops exactly behind them (also when `n` is a multiple of 8, and for `n = 0`). -/
theorem c16_bitfield_roundtrip (bits : List Bool) (r : Bytes) (h : bits.length + 7 < 2 ^ 32) :
    (Spec.HavokTag.encodeBits bits).length = (bits.length + 7) / 8 ∧
    Havok.readBitField bits.length (Spec.HavokTag.encodeBits bits ++ r) = some (bits, r) :=
  ⟨Havok.encodeBits_length _ bits (Nat.le_refl _), Havok.readBitField_encode bits r h⟩

example : Spec.HavokTag.encodeBits [true, false, false, true, false, false, false, true] = [0x89] := by
  rw [Havok.encodeBits_cons]
  simp only [List.drop_succ_cons, List.drop_zero, Havok.encodeBits_nil]
  decide
example : Havok.readBitField 8 [0x89, 0x55] = some ([true, false, false, true, false, false, false, true], [0x55]) := by
  decide

/-! ## skeletons: `Skeleton::from_existing` on a whole file -/

/-- Parsing a skeleton file returns every bone's name, parent index and reference position, rotation
and scale (f32 bit patterns): for both container versions (any header ids, any gap in front of the
Havok data), any number of bones, arbitrary names (UTF-8), parent indices (any `i32` but `i32::MIN`)
and poses, every packed-integer width and every choice of string back references the format allows
(`p`) - for tag files with the standard skeleton type table (`Spec.HavokTag.stdFile`).

Full statement (property C16): the same for Havok tag files with *arbitrary* type tables, i.e. for
every `f : TagFile` with `Spec.HavokTag.wf f`, `¬ usesUnimplemented [] f` and `bonesOf f = some bones`:
`Sklb.fromExisting (Spec.Sklb.encode h (encode p f)) = .ok (bones.map toBone)`.  That generalisation is
covered by the differential correspondence only (`skel` cases), hence `_partial`. -/
theorem c16_skeleton_partial (h : Spec.Sklb.Header) (p : Spec.HavokTag.Enc) (s : Spec.HavokTag.Skel)
    (hh : h.WF) (hs : s.WF) :
    Sklb.fromExisting (Spec.Sklb.encode h (Spec.HavokTag.encode p (Spec.HavokTag.stdFile s))) =
      .ok (s.bones.map fun b => Havok.toBone b.bone) := by
  rw [Sklb.fromExisting_encode h _ hh, Havok.read_std p s hs]
  simp only [Havok.extract_std]

/-- the specification's reading of the standard file is the list of bones it was built from -/
theorem c16_skeleton_spec (s : Spec.HavokTag.Skel) :
    Spec.HavokTag.bonesOf (Spec.HavokTag.stdFile s) = some (s.bones.map (·.bone)) :=
  Havok.bonesOf_std s

/-- a two-bone skeleton (`n_root`, `n_hara`), old container version, shortest integers, back references -/
example : Spec.Sklb.Header.WF ⟨Spec.Sklb.vOld, 0, 0, 101, 0, 0, 0, [0xAA, 0xBB]⟩ := by decide
example : Spec.HavokTag.Skel.WF ⟨[115, 107], [104, 107], 0,
    [⟨⟨[110, 95, 114, 111, 111, 116], -1, (0, 0, 0), (0, 0, 0, 0x3F800000), (0x3F800000, 0x3F800000, 0x3F800000)⟩,
        0, 0x3F800000, 0⟩,
     ⟨⟨[110, 95, 104, 97, 114, 97], 0, (0, 0x3F800000, 0), (0, 0, 0, 0x3F800000), (0x3F800000, 0x3F800000, 0x3F800000)⟩,
        0, 0x3F800000, 1⟩]⟩ := by
  refine ⟨by decide, by decide, by decide, by decide, ?_⟩
  intro b hb
  simp only [List.mem_cons, List.not_mem_nil, or_false] at hb
  rcases hb with rfl | rfl <;> exact ⟨by decide, by decide⟩

/-- ARBITRARY type tables, declaration part: on the encoding of any run of well-formed type
declarations `ts` (any names, versions, parents among the types known so far, any number of members
of any kind incl. tuple sizes and class names; any packed-integer width, any string back references)
the reader's tag loop ends up with exactly the types the declarations describe - `members()` of each
type = its parent's `members()` followed by its own (`Havok.buildTypes`, `Havok.toT`) -, with the
encoder's string table as remembered strings, and continues exactly behind the declarations. -/
theorem c16_type_table (p : Spec.HavokTag.Enc) (ts : List Spec.HavokTag.TypeDecl) (fuel : Nat) (st : Havok.St)
    (decls : List Spec.HavokTag.TypeDecl) (items : List Spec.HavokTag.Item) (r : Bytes) (types' : List Havok.HType)
    (hok : ∀ t ∈ ts, Havok.typeOK t = true) (hb : Havok.buildTypes st.types ts = some types') :
    Havok.tagLoop (fuel + ts.length) st
        (Spec.HavokTag.encItems p st.strings decls (ts.map Spec.HavokTag.Item.type ++ items) ++ r) =
      Havok.tagLoop fuel { st with strings := Havok.tblAfter p st.strings ts, types := types' }
        (Spec.HavokTag.encItems p (Havok.tblAfter p st.strings ts) (decls ++ ts) items ++ r) :=
  Havok.tagLoop_types p ts fuel st decls items r types' hok hb

/-- the standard table: seven declarations, `hkaSkeleton` ends up with 2 inherited + 8 own members -/
example : Havok.buildTypes [Havok.objectType] Spec.HavokTag.stdTypes = some Havok.stdHTypes ∧
    (∀ t ∈ Spec.HavokTag.stdTypes, Havok.typeOK t = true) ∧ Havok.hSkeleton.all.length = 10 := by decide

/-- ARBITRARY type tables, objects with flat members: for an object of any declared type (any number
of inherited and own members of any kind) whose *present* members are scalars (BYTE, INT, REAL, STRING,
OBJECT) or arrays of those or of vectors, with any subset of the other members absent (`flatAllOK`,
`flatData ≠ none`: every absent member has a default), the tag loop remembers exactly the object the
file describes - stored values, defaults for absent members (`Havok.flatData`) -, takes over the
encoder's string table, records every object index it read (`Havok.boundAll`) and continues exactly
behind the object; for every packed-integer width and back-reference policy.  (Objects with STRUCT
arrays: proved for the standard classes only, see `c16_skeleton_partial`.) -/
theorem c16_object_flat (p : Spec.HavokTag.Enc) (fuel : Nat) (st : Havok.St) (decls : List Spec.HavokTag.TypeDecl)
    (ti : Nat) (t : Havok.HType) (vs : List Spec.HavokTag.Val) (items : List Spec.HavokTag.Item) (r : Bytes)
    (data : List (Nat × Havok.Value)) (hver : st.ver = 3) (hti : ti < 2 ^ 31) (htype : st.types[ti]? = some t)
    (hall : t.all = (Spec.HavokTag.membersOf decls ti).map Havok.toM) (hlen : vs.length + 7 < 2 ^ 32)
    (hok : Havok.flatAllOK (Spec.HavokTag.membersOf decls ti) vs)
    (hd : Havok.flatData (Spec.HavokTag.membersOf decls ti) vs 0 = some data) :
    Havok.tagLoop (fuel + 1) st (Spec.HavokTag.encItems p st.strings decls (.obj ti vs :: items) ++ r) =
      Havok.tagLoop fuel
        { st with strings := (Spec.HavokTag.encFields p st.strings
                    ((Spec.HavokTag.membersOf decls ti).map (·.ty)) vs).2,
                  refBound := Havok.boundAll st.refBound (Spec.HavokTag.membersOf decls ti) vs,
                  objs := st.objs ++ [⟨t, data⟩] }
        (Spec.HavokTag.encItems p (Spec.HavokTag.encFields p st.strings
            ((Spec.HavokTag.membersOf decls ti).map (·.ty)) vs).2 decls items ++ r) :=
  Havok.tagLoop_object_flat p fuel st decls ti t vs items r data hver hti htype hall hlen hok hd

/-- the animation container of the standard file: two absent INTs (defaults 0), one reference array,
four absent reference arrays (defaults empty) -/
example : Havok.flatAllOK (Spec.HavokTag.membersOf Spec.HavokTag.stdTypes 5)
      [.absent, .absent, .refs [3], .absent, .absent, .absent, .absent] ∧
    Havok.hContainer.all = (Spec.HavokTag.membersOf Spec.HavokTag.stdTypes 5).map Havok.toM := by
  refine ⟨?_, by decide⟩
  rw [show Spec.HavokTag.membersOf Spec.HavokTag.stdTypes 5 =
    Spec.HavokTag.tReferenced.members ++ Spec.HavokTag.tContainer.members from by decide]
  simp [Havok.flatAllOK, Havok.flatOK, Spec.HavokTag.tReferenced, Spec.HavokTag.tContainer, Spec.HavokTag.Val.present,
    Spec.HavokTag.isArray, Spec.HavokTag.baseType]

/-! ### recorded finding `havok-unimplemented-member-kind` -/

/-- `lodLevels` -/
def n_lodLevels : Bytes := [108, 111, 100, 76, 101, 118, 101, 108, 115]

/-- the standard skeleton file with one more member in `hkaSkeleton`, a TUPLE of two INTs, which the
skeleton object instantiates (values 1, 2); two bones `n_root`, `n_hara` -/
def tupleFile : Spec.HavokTag.TagFile :=
  open Spec.HavokTag in
  [tRoot, tNamedVariant, tBase, tReferenced, tContainer,
    { tSkeleton with members := tSkeleton.members ++ [⟨n_lodLevels, 0x22, 2, []⟩] }, tBone].map Item.type ++
  [.obj 1 [.structs 1 [.strs [n_hkaAnimationContainer], .strs [n_hkaAnimationContainer], .refs [2]]],
   .obj 5 [.absent, .absent, .refs [3], .absent, .absent, .absent, .absent],
   .obj 6 [.absent, .absent, .str [115, 107], .ints 0 [-1, 0],
     .structs 2 [.strs [[110, 95, 114, 111, 111, 116], [110, 95, 104, 97, 114, 97]], .bytes [0, 1]],
     .vecs [[0, 0, 0, 0, 0, 0, 0, 0x3F800000, 0x3F800000, 0x3F800000, 0x3F800000, 0],
            [0x3F800000, 0, 0, 0, 0, 0, 0, 0x3F800000, 0x3F800000, 0x3F800000, 0x3F800000, 0]],
     .absent, .absent, .absent, .absent, .ints 0 [1, 2]]]

/-- The finding on a concrete input: the file is well formed, it describes two bones, it instantiates
a TUPLE member - and the reader (model of the code) returns `None` instead of the bones (a panic
`unimplemented 34` before the fix `C18-74`).  The real code does the same on the same bytes
(`corpus/C16/havok.case`, last case). -/
theorem c16_skeleton_unimplemented_witness :
    Spec.HavokTag.wf tupleFile = true ∧ Spec.HavokTag.usesUnimplemented [] tupleFile = true ∧
    (Spec.HavokTag.bonesOf tupleFile).map (·.map (·.name)) =
      some [[110, 95, 114, 111, 111, 116], [110, 95, 104, 97, 114, 97]] ∧
    Sklb.fromExisting (Spec.Sklb.encode ⟨Spec.Sklb.vOld, 0, 0, 101, 0, 0, 0, []⟩
      (Spec.HavokTag.encode ⟨0xFFFF, 1⟩ tupleFile)) = .none := by
  decide +kernel

/-! ### recorded finding `havok-array-length-guard` -/

/-- `extraBones` -/
def n_extraBones : Bytes := [101, 120, 116, 114, 97, 66, 111, 110, 101, 115]

/-- the standard skeleton file with one more member in `hkaSkeleton`, a STRUCT array of `hkaBone`, which
the skeleton object fills with 100 elements that store nothing (both columns absent) -/
def datalessFile : Spec.HavokTag.TagFile :=
  open Spec.HavokTag in
  [tRoot, tNamedVariant, tBase, tReferenced, tContainer,
    { tSkeleton with members := tSkeleton.members ++ [⟨n_extraBones, 0x19, 0, n_hkaBone⟩] }, tBone].map Item.type ++
  [.obj 1 [.structs 1 [.strs [n_hkaAnimationContainer], .strs [n_hkaAnimationContainer], .refs [2]]],
   .obj 5 [.absent, .absent, .refs [3], .absent, .absent, .absent, .absent],
   .obj 6 [.absent, .absent, .str [115, 107], .ints 0 [-1, 0],
     .structs 2 [.strs [[110, 95, 114, 111, 111, 116], [110, 95, 104, 97, 114, 97]], .bytes [0, 1]],
     .vecs [[0, 0, 0, 0, 0, 0, 0, 0x3F800000, 0x3F800000, 0x3F800000, 0x3F800000, 0],
            [0x3F800000, 0, 0, 0, 0, 0, 0, 0x3F800000, 0x3F800000, 0x3F800000, 0x3F800000, 0]],
     .absent, .absent, .absent, .absent, .structs 100 [.absent, .absent]]]

/-- The finding on a concrete input: a well-formed file that uses implemented member kinds only and
describes two bones; its last array has 100 elements but only two bytes follow its element count
(the existence bits and the end tag), and the reader's length guard (`array_len > remaining input`,
added against unbounded allocation) returns `None` instead of the bones. -/
theorem c16_skeleton_length_guard_witness :
    Spec.HavokTag.wf datalessFile = true ∧ Spec.HavokTag.usesUnimplemented [] datalessFile = false ∧
    Spec.HavokTag.hasDatalessStructArray datalessFile = true ∧
    Spec.HavokTag.itemTails ⟨0xFFFF, 1⟩ Spec.HavokTag.initStrings [] datalessFile =
      [(1, 139), (1, 131), (2, 122), (2, 118), (2, 100), (100, 2)] ∧
    Spec.HavokTag.guardTrips ⟨0xFFFF, 1⟩ datalessFile = true ∧
    (Spec.HavokTag.bonesOf datalessFile).map (·.map (·.name)) =
      some [[110, 95, 114, 111, 111, 116], [110, 95, 104, 97, 114, 97]] ∧
    Sklb.fromExisting (Spec.Sklb.encode ⟨Spec.Sklb.vOld, 0, 0, 101, 0, 0, 0, []⟩
      (Spec.HavokTag.encode ⟨0xFFFF, 1⟩ datalessFile)) = .none := by
  decide +kernel

/-! ### recorded finding `havok-int-beyond-i32` -/

/-- the standard skeleton file whose animation container has `referenceCount = 2^40` (Havok INT members
can hold 64-bit values; six bytes in the packed encoding) -/
def wideFile : Spec.HavokTag.TagFile :=
  open Spec.HavokTag in
  stdTypes.map Item.type ++
  [.obj 1 [.structs 1 [.strs [n_hkaAnimationContainer], .strs [n_hkaAnimationContainer], .refs [2]]],
   .obj 5 [.absent, .int (2 ^ 40), .refs [3], .absent, .absent, .absent, .absent],
   .obj 6 [.absent, .absent, .str [115, 107], .ints 0 [-1, 0],
     .structs 2 [.strs [[110, 95, 114, 111, 111, 116], [110, 95, 104, 97, 114, 97]], .bytes [0, 1]],
     .vecs [[0, 0, 0, 0, 0, 0, 0, 0x3F800000, 0x3F800000, 0x3F800000, 0x3F800000, 0],
            [0x3F800000, 0, 0, 0, 0, 0, 0, 0x3F800000, 0x3F800000, 0x3F800000, 0x3F800000, 0]],
     .absent, .absent, .absent, .absent]]

/-- The finding on a concrete input: a well-formed file that describes two bones and stores one INT
value outside `i32`; `read_packed_int` keeps a `u32` and would shift by 34 on the sixth byte: it
returns `None` (since the fix `C18-71`; before it an overflow panic in the profile the tests use, a
wrapped shift and a garbage value otherwise). -/
theorem c16_skeleton_wide_int_witness :
    Spec.HavokTag.wf wideFile = true ∧ Spec.HavokTag.usesUnimplemented [] wideFile = false ∧
    Spec.HavokTag.usesWideInt wideFile = true ∧
    (Spec.HavokTag.bonesOf wideFile).map (·.map (·.name)) =
      some [[110, 95, 114, 111, 111, 116], [110, 95, 104, 97, 114, 97]] ∧
    Spec.HavokTag.encodePackedInt (2 ^ 40) = [0x80, 0x80, 0x80, 0x80, 0x80, 0x40] ∧
    Sklb.fromExisting (Spec.Sklb.encode ⟨Spec.Sklb.vOld, 0, 0, 101, 0, 0, 0, []⟩
      (Spec.HavokTag.encode ⟨0xFFFF, 1⟩ wideFile)) = .none := by
  decide +kernel

end Physis.C16

/-! ## pre-bone deformer, byte level (`src/pbd.rs`, `strings_parser`) — completes `c16_pbd_chain_partial`

`Spec.Pbd.encode` lays a deformer file out as: count, item table (body id, link index, offset of the item's
out-of-line block), link table, then one block per item (bone count, u16 name offsets relative to the block,
a u16 of padding when the count is odd, the 4x3 matrices, the NUL-terminated names).  Items and links are
arbitrary lists (any order, any cross references — the link index / deformer index / parent fields are
data to the parser), 0 or more bones per item, any NUL-free names; `WFLayout` only asks for what the
fields can hold (equal table sizes, 12 floats per matrix, block < 2^16 for the u16 name offsets,
file < 2^31 for the i32 block offsets). -/
namespace Physis.C16
open Physis

/-- **`PreBoneDeformer::from_existing` returns exactly the stored records**: on the encoding of every file
the layout can hold, the reader (item table, `seek_before`/`restore_position` into the out-of-line blocks,
`strings_parser` over the name offsets, odd-count padding, matrices, link table) yields the header holding
the items — body id, link index, names and matrices in order — and the links of `f`. -/
theorem c16_pbd_parse_encode (f : Spec.Pbd.File) (h : Spec.Pbd.WFLayout f) :
    Pbd.fromExisting (Spec.Pbd.encode f) = .ok (Pbd.toModel f) :=
  Pbd.fromExisting_encode f h

/-- **the named 4x3 matrices along the parent chain**: parsing the encoded file and asking for
`get_deform_matrices(a, b)` returns the bones (name + matrix) of the first item with body id `a`, then those
of its ancestors, nearest first, up to but excluding the item with body id `b` (through the root when `b` is
not an ancestor) — for every well-formed forest, any item / link order, duplicate ids, 0..K bones per item,
whenever the start node has a sibling link (the no-sibling case is left unconstrained by the property). -/
theorem c16_pbd_chain (f : Spec.Pbd.File) (a b : UInt16) (hwf : Spec.Pbd.WFTree f) (hlay : Spec.Pbd.WFLayout f)
    (start : Spec.Pbd.Item) (hfind : Spec.Pbd.findItem f a = some start) (hab : a ≠ b)
    (hs : Spec.Pbd.HasSibling f start) :
    ∃ bones, Spec.Pbd.deformBones f start b = some bones ∧
      Pbd.query (Spec.Pbd.encode f) a b = .ok (bones.map Pbd.convBone) := by
  obtain ⟨bones, hspec, hmodel⟩ := c16_pbd_chain_partial f a b hwf start hfind hab hs
  exact ⟨bones, hspec, by rw [Pbd.query_encode f hlay, hmodel]⟩

/-- the three-level forest above is a well-formed file; its 3 → 1 query through the bytes -/
example : Spec.Pbd.WFLayout exampleForest := by decide +kernel
example : ∃ bones, Spec.Pbd.deformBones exampleForest ⟨3, 0, [⟨[0x63], [3,0,0,0,0,3,0,0,0,0,3,0]⟩]⟩ 1 = some bones ∧
    Pbd.query (Spec.Pbd.encode exampleForest) 3 1 = .ok (bones.map Pbd.convBone) :=
  c16_pbd_chain exampleForest 3 1 (by decide) (by decide +kernel) _ (by decide) (by decide) (by decide)

/-- items with 0, 1 (odd: padding present), 2 (even: no padding) bones, an empty name, item order different
from link order: child (id 7, two bones) → root (id 5, one bone); id 9 is a second root without bones -/
def exampleMixed : Spec.Pbd.File :=
  ⟨[⟨9, 0, []⟩, ⟨7, 2, [⟨[0x6a, 0x5f, 0x6b], [1,2,3,4,5,6,7,8,9,10,11,12]⟩, ⟨[], [0,0,0,0,0,0,0,0,0,0,0,0x3F800000]⟩]⟩,
    ⟨5, 1, [⟨[0x6e], [0x3F800000,0,0,0,0,0x3F800000,0,0,0,0,0x3F800000,0]⟩]⟩],
   [⟨0xFFFF, 0xFFFF, 1, 0⟩, ⟨0xFFFF, 2, 0xFFFF, 2⟩, ⟨1, 0xFFFF, 0, 1⟩]⟩
example : Spec.Pbd.WFTree exampleMixed ∧ Spec.Pbd.WFLayout exampleMixed := by decide +kernel
/-- the bytes of the one-bone block (count 1, name offset 0x38 = 56, padding, 12 floats, "n\0") -/
example : Spec.Pbd.encodeBlock [⟨[0x6e], [0x3F800000,0,0,0,0,0x3F800000,0,0,0,0,0x3F800000,0]⟩] =
    [1,0,0,0, 0x38,0, 0,0, 0,0,0x80,0x3F, 0,0,0,0, 0,0,0,0, 0,0,0,0, 0,0,0,0, 0,0,0x80,0x3F, 0,0,0,0, 0,0,0,0,
     0,0,0,0, 0,0,0,0, 0,0,0x80,0x3F, 0,0,0,0, 0x6e,0] := by decide
example : Pbd.query (Spec.Pbd.encode exampleMixed) 7 9 =
    .ok [⟨[0x6a, 0x5f, 0x6b], [1,2,3,4,5,6,7,8,9,10,11,12]⟩, ⟨[], [0,0,0,0,0,0,0,0,0,0,0,0x3F800000]⟩,
         ⟨[0x6e], [0x3F800000,0,0,0,0,0x3F800000,0,0,0,0,0x3F800000,0]⟩] := by decide +kernel

/-! ### any layout the reader accepts (`Spec/PbdLayout.lean`)

The format does not fix where an item's block lies: the item row records an absolute offset, and
`Spec.Pbd.encode` is only one way to lay a file out (blocks back to back in item order, reserved bytes
zero).  The following theorems do not depend on that choice. -/

/-- **general position**: whenever the count, the item rows (with any block offsets and any 4 reserved
bytes each) and the link table are followed by data in which every row's offset points at a well-formed
encoded block of that item's bones — blocks in any order, disjoint or shared, with anything between and
behind them — `from_existing` returns exactly the items of the rows and the links. -/
theorem c16_pbd_parse_layout (rows : List Spec.Pbd.Row) (links : List Spec.Pbd.Link) (data : Bytes)
    (h : Spec.Pbd.WFRows rows links data) :
    Pbd.fromExisting (Spec.Pbd.assemble rows links data) =
      .ok ⟨rows.map (fun r => Pbd.convItem r.1), links.map Pbd.convLink⟩ :=
  Pbd.fromExisting_at rows links data h

/-- the placed family (blocks stored in any order, filler in front of each, blocks shared by items with
equal bones, unreferenced blocks, any reserved bytes, any trailer): the reader returns the records of `f` -/
theorem c16_pbd_parse_placed (f : Spec.Pbd.File) (p : Spec.Pbd.Placement) (file : Bytes)
    (henc : Spec.Pbd.encodePlaced f p = some file) (h : Spec.Pbd.WFPlaced f p) :
    Pbd.fromExisting file = .ok (Pbd.toModel f) :=
  Pbd.fromExisting_placed f p file henc h

/-- `c16_pbd_chain` through any placed file -/
theorem c16_pbd_chain_placed (f : Spec.Pbd.File) (p : Spec.Pbd.Placement) (file : Bytes) (a b : UInt16)
    (hwf : Spec.Pbd.WFTree f) (henc : Spec.Pbd.encodePlaced f p = some file) (hlay : Spec.Pbd.WFPlaced f p)
    (start : Spec.Pbd.Item) (hfind : Spec.Pbd.findItem f a = some start) (hab : a ≠ b)
    (hs : Spec.Pbd.HasSibling f start) :
    ∃ bones, Spec.Pbd.deformBones f start b = some bones ∧
      Pbd.query file a b = .ok (bones.map Pbd.convBone) := by
  obtain ⟨bones, hspec, hmodel⟩ := c16_pbd_chain_partial f a b hwf start hfind hab hs
  refine ⟨bones, hspec, ?_⟩
  simp only [Pbd.query, c16_pbd_parse_placed f p file henc hlay, hmodel]

/-- `exampleMixed` with its blocks stored in the order 5, 9, 7 behind 3 / 0 / 1 filler bytes, a stray block
nobody points at, non-zero reserved bytes and a trailer -/
def examplePlacement : Spec.Pbd.Placement :=
  ⟨[⟨[0xEE, 0xEE, 0xEE], [⟨[0x6e], [0x3F800000,0,0,0,0,0x3F800000,0,0,0,0,0x3F800000,0]⟩]⟩,
    ⟨[], []⟩,
    ⟨[0xEE], [⟨[0x7a], [9,9,9,9,9,9,9,9,9,9,9,9]⟩]⟩,
    ⟨[], [⟨[0x6a, 0x5f, 0x6b], [1,2,3,4,5,6,7,8,9,10,11,12]⟩, ⟨[], [0,0,0,0,0,0,0,0,0,0,0,0x3F800000]⟩]⟩],
   [[0,0,0x80,0x3F], [1,2,3,4], [0xFF,0xFF,0xFF,0xFF]], [0xAA, 0xBB]⟩
example : Spec.Pbd.WFPlaced exampleMixed examplePlacement := by decide +kernel
/-- the offsets recorded in the item rows: 9 → 125, 7 → 188 (behind the stray block), 5 → 67 -/
example : (Spec.Pbd.rowsOf (Spec.Pbd.place 64 examplePlacement.stored).2 exampleMixed.items
    examplePlacement.reserved).map (·.map (·.2.1)) = some [125, 188, 67] := by decide +kernel
example : ∃ file, Spec.Pbd.encodePlaced exampleMixed examplePlacement = some file ∧
    Pbd.query file 7 9 =
    .ok [⟨[0x6a, 0x5f, 0x6b], [1,2,3,4,5,6,7,8,9,10,11,12]⟩, ⟨[], [0,0,0,0,0,0,0,0,0,0,0,0x3F800000]⟩,
         ⟨[0x6e], [0x3F800000,0,0,0,0,0x3F800000,0,0,0,0,0x3F800000,0]⟩] := by
  cases h : Spec.Pbd.encodePlaced exampleMixed examplePlacement with
  | none => exact absurd h (by decide +kernel)
  | some file =>
    obtain ⟨bones, hb, hq⟩ := c16_pbd_chain_placed exampleMixed examplePlacement file 7 9 (by decide +kernel) h
      (by decide +kernel) ⟨7, 2, [⟨[0x6a, 0x5f, 0x6b], [1,2,3,4,5,6,7,8,9,10,11,12]⟩, ⟨[], [0,0,0,0,0,0,0,0,0,0,0,0x3F800000]⟩]⟩
      (by decide) (by decide) (by decide)
    refine ⟨file, rfl, ?_⟩
    rw [hq]
    have : Spec.Pbd.deformBones exampleMixed ⟨7, 2, [⟨[0x6a, 0x5f, 0x6b], [1,2,3,4,5,6,7,8,9,10,11,12]⟩, ⟨[], [0,0,0,0,0,0,0,0,0,0,0,0x3F800000]⟩]⟩ 9 =
        some [⟨[0x6a, 0x5f, 0x6b], [1,2,3,4,5,6,7,8,9,10,11,12]⟩, ⟨[], [0,0,0,0,0,0,0,0,0,0,0,0x3F800000]⟩,
         ⟨[0x6e], [0x3F800000,0,0,0,0,0x3F800000,0,0,0,0,0x3F800000,0]⟩] := by decide +kernel
    rw [this] at hb
    injection hb with hb
    rw [← hb]; rfl

end Physis.C16

/-! ### T4: binrw declarations regenerated from the source

`Generated/BinrwAux.lean` is re-translated from the `#[binrw]` declarations of `src/cmp.rs` (and
`src/tera.rs`, not tied yet) on every run (`lib/binrw2lean.py`); `Cmp.readRow` is `Layout.read` of the
regenerated `RacialScalingParameters` descriptor (14 × f32, little-endian by the struct's own attribute —
the ambient `.big` in the statement is deliberately the wrong one) followed by a pure projection
(`Proofs/BinrwTieAux.lean`), for all inputs. -/
namespace Physis.C16
open Physis.Binrw Physis.Generated

theorem c16_binrw_RacialScalingParameters (b : Bytes) :
    Cmp.readRow b = via BinrwTie.Aux.rowOf (Layout.read .big BinrwAux.racialScalingParameters b) :=
  BinrwTie.Aux.readRow_eq_generated b

end Physis.C16

/-! ### T4 (continued): `TerrainHeader` / `PlatePosition` (`src/tera.rs`) -/
namespace Physis.C16
open Physis.Binrw Physis.Generated

/-- `Terrain::from_existing` = the regenerated `TerrainHeader` layout (five 32-bit fields, `pad_before = 32`,
`count = plate_count` positions of two i16; little-endian by the structs' own attributes — the
ambient `.big` is deliberately the wrong one) followed by the plate computation -/
theorem c16_binrw_TerrainHeader (buffer : Bytes) :
    Tera.fromExisting buffer =
      (via BinrwTie.Aux.terrainOf (Layout.read .big BinrwAux.terrainHeader buffer)).map (·.1) :=
  BinrwTie.Aux.fromExisting_eq_generated buffer

end Physis.C16
