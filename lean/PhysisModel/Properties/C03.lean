import PhysisModel.Proofs.PatchChain
import PhysisModel.Proofs.PatchSpecFacts
import PhysisModel.Proofs.PatchSparse
import PhysisModel.Proofs.BinrwTiePatch
/-!
# C03 — applying a ZiPatch has exactly the reference effect on the install

Property theorems only (helper lemmas: `Proofs/Fs`, `Proofs/PatchBytes`, `Proofs/WriteAt`,
`Proofs/PatchApply`, `Proofs/PatchRefine`, `Proofs/PatchChain`).

* `Spec.ZiPatch.encodePatch` — the wire format (what the correspondence feeds to the real code);
* `Spec.ZiPatch.effect` / `run` / `runChain` — the reference semantics, file contents index by index;
* `Patch.apply` / `Patch.applyAll` / `Patch.parsePatch` — the model of `ZiPatch::apply`
  (= `GameData::apply_patch` = `BootData::apply_patch`, which only forward their directory);
* `inflate` — zlib, a parameter; `InflateOK` says it inverts the deflated blocks of the patch at hand.
-/
namespace Physis.C03
open Physis Physis.Fs Physis.Patch Physis.Spec.ZiPatch

/-- **Wire format.**  Reading an encoded well-formed command sequence yields exactly the commands
(as far as `apply` looks at them: `toChunk`), each with the payload it carries, then `EOF_`. -/
theorem c03_parse_encode (inflate : Bytes → Nat → Option Bytes) (cs : List Cmd)
    (hwf : cs.all Cmd.wf = true) (hinf : InflateOK inflate cs) :
    parsePatch inflate (encodePatch cs) = some (cs.map (fun c => (toChunk c, payload c)) ++ [(.eof, [])]) :=
  parsePatch_encode inflate cs (fun c hc => List.all_eq_true.mp hwf c hc) hinf

/-- **Refinement.**  For every well-formed command sequence `cs` on every start tree `t`
(`WFseq`: every command syntactically well formed — block counts ≥ 1, known platform, sizes that
fit their fields, ASCII paths without empty/`.`/`..` components — and the reference semantics
defined along the sequence — a target platform before the first data command, no regular file
where a directory is needed, the repository directory present for DeleteData), the model of
`ZiPatch::apply` on the encoded patch reports success and leaves **exactly** the tree the
reference semantics assigns (equality of trees, hence of every file, directory and byte). -/
theorem c03_apply_refines (inflate : Bytes → Nat → Option Bytes) (cs : List Cmd) (t : Tree)
    (hwf : WFseq cs { plat := none, tree := t } = true) (hinf : InflateOK inflate cs) :
    ∃ s', run { plat := none, tree := t } cs = some s' ∧
      Patch.apply inflate (encodePatch cs) t = (.ok, s'.tree) := by
  simp only [WFseq, Bool.and_eq_true, Option.isSome_iff_exists] at hwf
  obtain ⟨h1, s', h2⟩ := hwf
  exact ⟨s', h2, apply_encodePatch inflate cs t s' (fun c hc => List.all_eq_true.mp h1 c hc) hinf h2⟩

/-- **Chains.**  Applying several patches one after another equals composing their reference
effects: nothing but the tree carries over from one patch to the next. -/
theorem c03_chain (inflate : Bytes → Nat → Option Bytes) (pss : List (List Cmd)) (t : Tree)
    (hwf : WFchain pss t = true) (hinf : ∀ cs ∈ pss, InflateOK inflate cs) :
    ∃ t', runChain pss t = some t' ∧ applyAll inflate (pss.map encodePatch) t = (.ok, t') := by
  simp only [WFchain, Bool.and_eq_true, Option.isSome_iff_exists] at hwf
  obtain ⟨h1, t', h2⟩ := hwf
  exact ⟨t', h2, applyAll_chain inflate pss t t'
    (fun cs hcs c hc => List.all_eq_true.mp (List.all_eq_true.mp h1 cs hcs) c hc) hinf h2⟩

/-- `apply` has no state besides its arguments: a chain is the fold of single applications. -/
theorem c03_no_hidden_state (inflate : Bytes → Nat → Option Bytes) (p : Bytes) (ps : List Bytes) (t : Tree) :
    applyAll inflate (p :: ps) t =
      match Patch.apply inflate p t with
      | (.ok, t') => applyAll inflate ps t'
      | r => r := rfl

/-! ### what the reference effect is, byte by byte (statements about `Spec.ZiPatch.effect`, which
by `c03_apply_refines` are statements about the model of the code) -/

/-- **Frame.**  A path a command does not touch (its target file, the directories leading to it;
for RemoveAll the expansion folder and everything below) keeps its node. -/
theorem c03_frame (s s' : St) (c : Cmd) (he : effect s c = some s') (q : Path) (hq : ¬ touched s.plat c q) :
    get s'.tree q = get s.tree q :=
  effect_frame s s' c he q hq

/-- frame for a whole patch, through the model: nothing else under the directory changes -/
theorem c03_frame_apply (inflate : Bytes → Nat → Option Bytes) (cs : List Cmd) (t : Tree)
    (hwf : WFseq cs { plat := none, tree := t } = true) (hinf : InflateOK inflate cs) (q : Path)
    (hq : ¬ touchedRun { plat := none, tree := t } cs q) :
    get (Patch.apply inflate (encodePatch cs) t).2 q = get t q := by
  obtain ⟨s', hrun, happ⟩ := c03_apply_refines inflate cs t hwf hinf
  rw [happ]
  have key : ∀ (cs : List Cmd) (s s' : St), run s cs = some s' → ¬ touchedRun s cs q → get s'.tree q = get s.tree q := by
    intro cs
    induction cs with
    | nil => intro s s' h _; simp only [run, Option.some.injEq] at h; subst h; rfl
    | cons c cs ih =>
      intro s s' h hq
      obtain ⟨s1, he, hr⟩ := run_cons s s' c cs h
      simp only [touchedRun, he, not_or] at hq
      rw [ih s1 s' hr hq.2, effect_frame s s1 c he q hq.1]
  exact key cs _ s' hrun hq

/-- **AddData lands at 128 × block offset** in the data file named by category, expansion, chunk,
file number and the current platform: the payload bytes, then `128 × delete` zero bytes; everything
before is the old byte (0 in a gap past the old end), everything after is the old file. -/
theorem c03_write_lands (s s' : St) (m sub : UInt16) (f off del : UInt32) (data : Bytes) (hd : data ≠ [])
    (he : effect s (.addData m sub f off del data) = some s') :
    ∃ pn bytes, s.plat.bind platformName = some pn ∧
      get s'.tree (datPath pn m sub f) = some (.file bytes) ∧
      (∀ i, i < data.length → bytes[128 * off.toNat + i]? = data[i]?) ∧
      (∀ i, i < 128 * del.toNat → bytes[128 * off.toNat + data.length + i]? = some 0) ∧
      (∀ i, i < 128 * off.toNat → bytes[i]? = some (((fileAt s.tree (datPath pn m sub f)).getD []).getD i 0)) ∧
      (∀ i, 128 * off.toNat + data.length + 128 * del.toNat ≤ i →
        bytes[i]? = ((fileAt s.tree (datPath pn m sub f)).getD [])[i]?) := by
  simp only [effect] at he
  obtain ⟨pn, hpn, hk⟩ := bind_plat' _ _ _ he
  simp only [Option.map_eq_some_iff] at hk
  obtain ⟨t', hu, rfl⟩ := hk
  obtain ⟨hg, _⟩ := updateFile_get _ _ _ _ _ hu
  obtain ⟨_, h2, h3, h4⟩ := overlay_spec ((fileAt s.tree (datPath pn m sub f)).getD []) (128 * off.toNat)
    (data ++ zeros (128 * del.toNat)) (by simp [hd])
  refine ⟨pn, _, hpn, hg, ?_, ?_, h3, ?_⟩
  · intro i hi
    rw [h2 i (by simp; omega), List.getElem?_append_left hi]
  · intro i hi
    rw [Nat.add_assoc, h2 (data.length + i) (by simp [zeros]; omega), List.getElem?_append_right (by omega)]
    simp [zeros, hi]
  · intro i hi
    exact h4 i (by simp [zeros]; omega)

/-- **DeleteData / ExpandData write an empty-block header of the given block count**: at
128 × block offset the 20 bytes `128, 0, 0, n − 1, 0` (five little-endian i32) followed by zeros up
to `128 × n`; the rest of the file is untouched. -/
theorem c03_empty_block_header (s s' : St) (expand : Bool) (m sub : UInt16) (f off n : UInt32) (hn : 1 ≤ n)
    (he : effect s (if expand then .expandData m sub f off n else .deleteData m sub f off n) = some s') :
    ∃ pn bytes, s.plat.bind platformName = some pn ∧
      get s'.tree (datPath pn m sub f) = some (.file bytes) ∧
      (∀ i, i < 128 * n.toNat → bytes[128 * off.toNat + i]? =
        (putU32le 128 ++ putU32le 0 ++ putU32le 0 ++ putU32le (n - 1) ++ putU32le 0 ++ zeros (128 * n.toNat - 20))[i]?) ∧
      (∀ i, i < 128 * off.toNat → bytes[i]? = some (((fileAt s.tree (datPath pn m sub f)).getD []).getD i 0)) ∧
      (∀ i, 128 * off.toNat + 128 * n.toNat ≤ i → bytes[i]? = ((fileAt s.tree (datPath pn m sub f)).getD [])[i]?) := by
  have hn1 : 1 ≤ n.toNat := by
    have := UInt32.le_iff_toNat_le.mp hn; simpa using this
  cases expand with
  | true =>
    simp only [↓reduceIte, effect] at he
    obtain ⟨pn, hpn, hk⟩ := bind_plat' _ _ _ he
    simp only [Option.map_eq_some_iff] at hk
    obtain ⟨t', hu, rfl⟩ := hk
    obtain ⟨bytes, h1, h2, h3, h4⟩ := emptyBlock_update _ _ _ _ _ _ hn1 hu
    exact ⟨pn, bytes, hpn, h1, h2, h3, h4⟩
  | false =>
    simp only [Bool.false_eq_true, ↓reduceIte, effect] at he
    obtain ⟨pn, hpn, hk⟩ := bind_plat' _ _ _ he
    simp only [Option.map_eq_some_iff] at hk
    obtain ⟨t', hu, rfl⟩ := hk
    obtain ⟨bytes, h1, h2, h3, h4⟩ := emptyBlock_update _ _ _ _ _ _ hn1 hu
    exact ⟨pn, bytes, hpn, h1, h2, h3, h4⟩

/-- **HeaderUpdate overwrites the first KiB (version header) or the second KiB (index / data
header)** of the dat or index file, and nothing else. -/
theorem c03_header_update_region (s s' : St) (isIdx : Bool) (k : HeaderKind) (m sub : UInt16) (f : UInt32)
    (data : Bytes) (hd : data.length = 1024) (he : effect s (.header isIdx k m sub f data) = some s') :
    ∃ pn bytes, s.plat.bind platformName = some pn ∧
      let p := if isIdx then indexPath pn m sub f else datPath pn m sub f
      let base := if k = .version then 0 else 1024
      get s'.tree p = some (.file bytes) ∧
      (∀ i, i < 1024 → bytes[base + i]? = data[i]?) ∧
      (∀ i, i < base → bytes[i]? = some (((fileAt s.tree p).getD []).getD i 0)) ∧
      (∀ i, base + 1024 ≤ i → bytes[i]? = ((fileAt s.tree p).getD [])[i]?) := by
  simp only [effect] at he
  obtain ⟨pn, hpn, hk⟩ := bind_plat' _ _ _ he
  simp only [Option.map_eq_some_iff] at hk
  obtain ⟨t', hu, rfl⟩ := hk
  obtain ⟨hg, _⟩ := updateFile_get _ _ _ _ _ hu
  obtain ⟨_, h2, h3, h4⟩ := overlay_spec
    ((fileAt s.tree (if isIdx then indexPath pn m sub f else datPath pn m sub f)).getD [])
    (if k = .version then 0 else 1024) data (by intro h; rw [h] at hd; simp at hd)
  exact ⟨pn, _, hpn, hg, fun i hi => h2 i (by omega), h3, fun i hi => h4 i (by omega)⟩

/-- **File operations.**  AddFile at offset 0 leaves exactly the concatenated block data
(truncating what was there); at another offset it overlays the old content; the directories
leading to the file exist afterwards.  DeleteFile removes the file.  MakeDirTree makes every
directory of its path, the last component included.  RemoveAll empties the expansion's `sqpack` folder. -/
theorem c03_file_ops (s s' : St) :
    (∀ off exp path blocks, effect s (.addFile off exp path blocks) = some s' →
      get s'.tree (splitSlash path) = some (.file
        (if off = 0 then fileData blocks
         else overlay ((fileAt s.tree (splitSlash path)).getD []) off.toNat (fileData blocks)))) ∧
    (∀ exp path, effect s (.deleteFile exp path) = some s' → isFile s.tree (splitSlash path) = true →
      get s'.tree (splitSlash path) = none) ∧
    (∀ exp path k, effect s (.mkDirTree exp path) = some s' → 0 < k → k ≤ (splitSlash path).length →
      get s'.tree ((splitSlash path).take k) = some .dir) ∧
    (∀ exp path q, effect s (.removeAll exp path) = some s' → isDir s.tree [sSqpack, Spec.ZiPatch.expansionFolder exp] = true →
      [sSqpack, Spec.ZiPatch.expansionFolder exp] <+: q → get s'.tree q = none) := by
  refine ⟨?_, ?_, ?_, ?_⟩
  · intro off exp path blocks he
    simp only [effect, Option.map_eq_some_iff] at he
    obtain ⟨t', hu, rfl⟩ := he
    exact (updateFile_get _ _ _ _ _ hu).1
  · intro exp path he hf
    simp only [effect, Option.some.injEq] at he; subst he
    simp [hf, get_erase]
  · intro exp path k he hk hk2
    simp only [effect, Option.map_eq_some_iff] at he
    obtain ⟨t', hu, rfl⟩ := he
    have := mkdirAll_made _ [] _ t' hu k hk hk2
    simpa using this
  · intro exp path q he hd hq
    simp only [effect, Option.some.injEq] at he; subst he
    simp [hd, get_eraseUnder, hq]

/-! ### non-vacuity -/

/-- TargetInfo(win32); AddData category 4, sub 0x0100 (ex1, chunk 0), file 1, block offset 2, one
block of payload, one block wiped; MakeDirTree `d/x`; AddFile `f` at offset 0 with one raw block. -/
def exCmds : List Cmd :=
  [.target 0 0xFFFF 0 1 0 0,
   .addData 4 0x0100 1 2 1 (List.replicate 128 7),
   .mkDirTree 0 [0x64, 0x2f, 0x78],
   .addFile 0 0 [0x66] [.raw [1, 2, 3]]]

example : WFseq exCmds { plat := none, tree := [] } = true := by decide +kernel
example : InflateOK (fun _ _ => none) exCmds := by
  intro off exp path blocks hm b hb
  simp [exCmds] at hm
  obtain ⟨_, _, _, rfl⟩ := hm
  simp at hb; subst hb; trivial

/-! ### sparse evaluation (`Spec/ZiPatchSparse.lean`): byte offsets of 2^32 and more

The correspondence cases `applybig` take their expected answers from an evaluation of the reference
semantics on run-length encoded file contents (a run of zeros costs nothing).  The theorems below say
that this evaluation **is** the reference semantics of the theorems above, for all inputs: nothing
about the huge cases rests on a second, unproved specification. -/

open Physis.Spec.ZiPatchSparse in
/-- **Sparse contents.**  `takeS` / `dropS` / `writeS` / `setLenS` on segment lists denote `take` / `drop` /
`Fs.writeAt` (seek + write_all, the model's write) = `overlay` (the specification's index-wise write) /
truncate-or-extend on the bytes, the written data being sparse itself. -/
theorem c03_sparse_write (old : SFile) (off : Nat) (new : SFile) :
    dense (writeS old off new) = Fs.writeAt (dense old) off (dense new) ∧
    dense (writeS old off new) = overlay (dense old) off (dense new) ∧
    dense (takeS off old) = (dense old).take off ∧
    dense (dropS off old) = (dense old).drop off ∧
    dense (setLenS old off) = (dense old).take off ++ zeros (off - (dense old).length) :=
  ⟨dense_writeS old off new, dense_writeS_overlay old off new, dense_takeS off old, dense_dropS off old,
    dense_setLenS old off⟩

open Physis.Spec.ZiPatchSparse in
/-- **Sparse length and FNV-1a.**  The arithmetic length and hash (a run of `n` zeros multiplies the
FNV state by `prime ^ n`, computed by square-and-multiply in `UInt64`) are the length and the
byte-wise FNV-1a 64 of the dense bytes, hence the canonical `h<len>.<fnv>` text is the same. -/
theorem c03_sparse_fnv (f : SFile) :
    len f = (dense f).length ∧ fnvS f = FsText.fnv1a (dense f) ∧
    showContentS f = FsText.showContent (dense f) ∧
    (∀ b n, powFast b n = powSlow b n) ∧
    (∀ h n, (zeros n).foldl fnvStep h = h * powFast fnvPrime n) :=
  ⟨(dense_length f).symm, fnvS_eq f, showContentS_eq f, powFast_eq,
    fun h n => by rw [foldl_fnvStep_zeros, powFast_eq]⟩

open Physis.Spec.ZiPatchSparse in
/-- **Sparse run = reference run.**  For every command list and every state with sparse files, the
reference semantics on the dense state is defined exactly when the sparse evaluation is, and its
result is the denotation of the sparse result (one command: `effect`; a list: `run`). -/
theorem c03_sparse_refines (s : SSt) (cs : List Cmd) :
    run (denseSt s) cs = (runS s cs).map denseSt ∧
    (∀ c, effect (denseSt s) c = (effectS s c).map denseSt) :=
  ⟨run_denseSt s cs, effect_denseSt s⟩

open Physis.Spec.ZiPatchSparse in
/-- the same for chains of patches and for the well-formedness predicate of `c03_chain`; an ordinary
start tree is the denotation of its lifting -/
theorem c03_sparse_chain (pss : List (List Cmd)) (t : STree) :
    runChain pss (denseTree t) = (runChainS pss t).map denseTree ∧
    WFchain pss (denseTree t) = WFchainS pss t ∧
    (∀ u : Tree, denseTree (liftTree u) = u) :=
  ⟨runChain_denseTree pss t, WFchain_denseTree pss t, denseTree_liftTree⟩

open Physis.Spec.ZiPatchSparse in
/-- **Canonical text.**  The text the driver prints for a sparse tree is the canonical text of the
dense tree (what the harness prints for the directory on disk). -/
theorem c03_sparse_text (t : STree) (withDirs : Bool) :
    showTreeS t withDirs = FsText.showTree (denseTree t) withDirs :=
  showTreeS_eq t withDirs

open Physis.Spec.ZiPatchSparse in
/-- **The model on the huge cases.**  When the sparse evaluation accepts a chain (`WFchainS`), the
model of `ZiPatch::apply` on the encoded patches, started on the dense tree, reports success and
leaves exactly the denotation of the sparse result: the `applybig` cases need no separate model
answer. -/
theorem c03_sparse_model (inflate : Bytes → Nat → Option Bytes) (pss : List (List Cmd)) (t : STree)
    (hwf : WFchainS pss t = true) (hinf : ∀ cs ∈ pss, InflateOK inflate cs) :
    ∃ t', runChainS pss t = some t' ∧
      applyAll inflate (pss.map encodePatch) (denseTree t) = (.ok, denseTree t') := by
  rw [← WFchain_denseTree] at hwf
  obtain ⟨u, h1, h2⟩ := c03_chain inflate pss (denseTree t) hwf hinf
  rw [runChain_denseTree] at h1
  cases hr : runChainS pss t with
  | none => rw [hr] at h1; cases h1
  | some t' =>
    rw [hr] at h1
    simp only [Option.map_some, Option.some.injEq] at h1
    exact ⟨t', rfl, h1 ▸ h2⟩

/-- TargetInfo(win32); a record at block 3 of `sqpack/ffxiv/040000.win32.dat0`; a second record at block
0x02000003 (byte offset 4 GiB + 384) of the same file followed by 2^25 + 1 wiped blocks (4 GiB + 128
zero bytes); ExpandData of two blocks at byte offset 2^32 − 128 of another file -/
def exBig : List Cmd :=
  [.target 0 0xFFFF 0 1 0 0,
   .addData 4 0 0 3 0 (List.replicate 128 7),
   .addData 4 0 0 0x02000003 0x02000001 (List.replicate 128 9),
   .expandData 4 0 1 0x01FFFFFF 2]

open Physis.Spec.ZiPatchSparse in
example : WFchainS [exBig] [] = true := by decide +kernel
example : InflateOK (fun _ _ => none) exBig := by
  intro off exp path blocks hm b hb
  simp [exBig] at hm

open Physis.Spec.ZiPatchSparse in
/-- the sparse result of `exBig`: lengths 2·2^32 + 640 and 2^32 + 128, evaluated by the kernel -/
example :
    ((runChainS [exBig] []).map fun t => t.filterMap fun e =>
      match e.2 with | .file f => some (len f, fnvS f) | .dir => none) =
    some [(4294967424, 0x1ab710bd9b6f9954), (8589935232, 0x6baef53e55484a25)] := by decide +kernel

end Physis.C03

/-! ### T4: binrw declarations regenerated from the source

`Generated/BinrwPatch.lean` is re-translated from the `#[binrw]` declarations of `src/patch.rs` (and
`Platform` / `Region` of `src/common.rs`) on every run (`lib/binrw2lean.py`).  `Model/Patch.lean` reads the
SQPK payloads in anonymous `do` blocks inside `rdSqpk`; each theorem says: when the bytes before the
payload (the u32 size and the operation byte) select the struct, `rdSqpk` is `Layout.read` of the
regenerated descriptor on the payload followed by a pure projection, a read error being `Rd.fail`
(`Proofs/BinrwTiePatch.lean`).  The ambient `.little` is `PatchChunk`'s `#[brw(little)]`; the payload
structs declare `big` themselves. -/
namespace Physis.C03
open Physis.Binrw Physis.Generated

/-- `SqpkTargetInfo` (also what C15's platform string depends on): `pad_before = 4` then the
`repr = u8` `Platform` — the low byte of the big-endian u16 — `Region` as big-endian i16, two u16,
two little-endian u64, `pad_after = 96` -/
theorem c03_binrw_SqpkTargetInfo (s s1 s2 : Bytes) (x : UInt32)
    (h1 : Patch.rdU32be s = some (x, s1)) (h2 : Patch.rdU8 s1 = some (0x54, s2)) :
    Patch.rdSqpk s =
      BinrwTie.Patch.toRd (via BinrwTie.Patch.targetInfoOf (Layout.read .little BinrwPatch.sqpkTargetInfo s2)) :=
  BinrwTie.Patch.rdSqpk_targetInfo_generated s s1 s2 x h1 h2

/-- `SqpkDeleteData` (operations `D` and `E`) -/
theorem c03_binrw_SqpkDeleteData (s s1 s2 : Bytes) (x : UInt32) (op : UInt8) (hop : op = 0x44 ∨ op = 0x45)
    (h1 : Patch.rdU32be s = some (x, s1)) (h2 : Patch.rdU8 s1 = some (op, s2)) :
    Patch.rdSqpk s =
      BinrwTie.Patch.toRd (via (BinrwTie.Patch.deleteDataOf op) (Layout.read .little BinrwPatch.sqpkDeleteData s2)) :=
  BinrwTie.Patch.rdSqpk_deleteData_generated s s1 s2 x op hop h1 h2

/-- `SqpkAddData`: the translated prefix (pad 3, ids, three block counts), then `block_number << 7`
bytes of `block_data` (`parse_with`, not translated: `BinrwTie.Patch.addDataRest`) -/
theorem c03_binrw_SqpkAddData (s s1 s2 : Bytes) (x : UInt32)
    (h1 : Patch.rdU32be s = some (x, s1)) (h2 : Patch.rdU8 s1 = some (0x41, s2)) :
    Patch.rdSqpk s =
      BinrwTie.Patch.toRd ((Layout.read .little BinrwPatch.sqpkAddData s2).bind BinrwTie.Patch.addDataRest) :=
  BinrwTie.Patch.rdSqpk_addData_generated s s1 s2 x h1 h2

/-- non-vacuity of the hypotheses: a size word followed by the operation byte `T` -/
example : Patch.rdU32be [0, 0, 0, 120, 0x54, 9] = some (120, [0x54, 9]) ∧ Patch.rdU8 [0x54, 9] = some (0x54, [9]) := by
  decide

/-- `SqpkPatchInfo` and `ApplyOptionChunk` (with the `ApplyOption` enum's own `#[brw(big)]`): the
regenerated descriptors have the expected normal form (their reads in the model are not tied yet) -/
theorem c03_binrw_SqpkPatchInfo_ApplyOption_declared :
    BinrwPatch.sqpkPatchInfo.normalizeAt .little = BinrwTie.Patch.Expected.sqpkPatchInfo.normalizeAt .little ∧
    BinrwPatch.applyOptionChunk.normalizeAt .little = BinrwTie.Patch.Expected.applyOptionChunk.normalizeAt .little :=
  ⟨BinrwTie.Patch.sqpkPatchInfo_generated, BinrwTie.Patch.applyOptionChunk_generated⟩

end Physis.C03
