import PhysisModel.Driver.All
/-! `physis-model <property-id>`: reads case lines on stdin, writes one answer line per case. -/
partial def loop (hin hout : IO.FS.Stream) (h : String → String) : IO Unit := do
  let line ← hin.getLine
  if line.isEmpty then return ()
  hout.putStrLn (h line)
  loop hin hout h

def main (args : List String) : IO UInt32 := do
  match args with
  | [prop] =>
    match Physis.Driver.handlers.lookup prop with
    | some h =>
      let hout ← IO.getStdout
      loop (← IO.getStdin) hout h
      hout.flush
      return 0
    | none => IO.eprintln s!"unknown property {prop}"; return 2
  | _ => IO.eprintln "usage: physis-model <property-id> < cases > answers"; return 2
