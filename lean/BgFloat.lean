import PhysisModel.Proofs.TeraFloat
open Physis Physis.F32Arith Physis.Spec.Tera Physis.TeraFloat
set_option maxHeartbeats 2000000 in
theorem add_half_pos (c : UInt16) (a : UInt32) (h : a = fOfCoord c) (hc : c < 0x8000) : add a half = fHalfOdd c := by
  simp -zeta only [fOfCoord, f32OfInt32, mag32, sext16, Spec.Tera.msb, Spec.Tera.msb1, Spec.Tera.msb2,
    Spec.Tera.msb3, Spec.Tera.msb4] at h
  simp -zeta only [fHalfOdd, add, half, magFix, sh, mant,
    expField, isNaN, isInf, isNeg, canonicalNaN]
  simp -zeta only [round, signBit]
  simp -zeta only [roundMag]
  simp -zeta only [F32Arith.msb]
  simp -zeta only [f32OfInt32, mag32, sext16, Spec.Tera.msb, Spec.Tera.msb1, Spec.Tera.msb2, Spec.Tera.msb3, Spec.Tera.msb4]
  bv_decide (config := {timeout := 900})
