#!/usr/bin/env python3
"""
C11 — measure which *source* table words the generated keys exercise.
usage: c11_coverage.py <repo> <cases.txt> [max_keys]

Runs an instrumented Blowfish key schedule (tables parsed from src/blowfish/constants.rs by
lib/extract.py's reader) for the keys of the case file and counts, for each of the 4x256 initial
S-box words and the 18 P words, for how many keys the word is *read before it is overwritten*
(i.e. the ciphertext of that key depends on the constant in the source).  Reporting tool only;
not part of the verdict.
"""
import sys, re, os
sys.path.insert(0, os.path.dirname(os.path.abspath(__file__)))
import extract

M = 0xFFFFFFFF


def tables(repo):
    s = extract.strip_comments(extract.read(repo, "src/blowfish/constants.rs"))
    num = r"0[xX][0-9A-Fa-f_]+"
    mp = re.search(r"BLOWFISH_P[^=]*=\s*\[(.*?)\]\s*;", s, flags=re.S)
    ms = re.search(r"BLOWFISH_S[^=]*=\s*\[(.*)\]\s*;", s, flags=re.S)
    P = [extract.lit(x) for x in re.findall(num, mp.group(1))]
    S = [[extract.lit(x) for x in re.findall(num, b)] for b in re.findall(r"\[([^\[\]]*)\]", ms.group(1))]
    return P, S


def schedule(P0, S0, key, hits):
    P = list(P0)
    S = [list(b) for b in S0]
    fresh = [[True] * 256 for _ in range(4)]      # still the source constant?
    seen = set()
    for i in range(18):
        w = 0
        for k in range(4):
            w = (w << 8) | key[(4 * i + k) % 8]
        P[i] ^= w

    def enc(l, r):
        for i in range(0, 16, 2):
            l ^= P[i]
            x = l
            idx = (x >> 24, (x >> 16) & 255, (x >> 8) & 255, x & 255)
            for bx in range(4):
                if fresh[bx][idx[bx]]:
                    seen.add((bx, idx[bx]))
            r ^= ((((S[0][idx[0]] + S[1][idx[1]]) & M) ^ S[2][idx[2]]) + S[3][idx[3]]) & M
            r ^= P[i + 1]
            x = r
            idx = (x >> 24, (x >> 16) & 255, (x >> 8) & 255, x & 255)
            for bx in range(4):
                if fresh[bx][idx[bx]]:
                    seen.add((bx, idx[bx]))
            l ^= ((((S[0][idx[0]] + S[1][idx[1]]) & M) ^ S[2][idx[2]]) + S[3][idx[3]]) & M
        return r ^ P[17], l ^ P[16]
    l = r = 0
    for i in range(0, 18, 2):
        l, r = enc(l, r)
        P[i], P[i + 1] = l, r
    for b in range(4):
        for j in range(0, 256, 2):
            l, r = enc(l, r)
            S[b][j], S[b][j + 1] = l, r
            fresh[b][j] = fresh[b][j + 1] = False
    for e in seen:
        hits[e] = hits.get(e, 0) + 1


def main():
    repo, cases = sys.argv[1], sys.argv[2]
    maxk = int(sys.argv[3]) if len(sys.argv) > 3 else 1500
    P, S = tables(repo)
    keys = []
    seenk = set()
    for l in open(cases):
        f = l.split()
        if len(f) >= 3 and f[0] in ("enc", "dec", "rt", "kat"):
            k = bytes.fromhex(f[1])[:8]
            if k not in seenk:
                seenk.add(k)
                keys.append(k)
    total = len(keys)
    keys = keys[:maxk]
    hits = {}
    for k in keys:
        schedule(P, S, k, hits)
    counts = [hits.get((b, v), 0) for b in range(4) for v in range(256)]
    print("distinct 8-byte key prefixes in the case file: %d; instrumented: %d" % (total, len(keys)))
    print("initial S-box words read before being overwritten by at least one key: %d / 1024" % sum(1 for c in counts if c))
    print("keys per S-box word: min %d, median %d, max %d" % (min(counts), sorted(counts)[512], max(counts)))
    for b in range(4):
        cb = counts[256 * b:256 * b + 256]
        print("  S[%d]: covered %d/256, min %d keys (entry %d)" % (b, sum(1 for c in cb if c), min(cb), cb.index(min(cb))))
    print("P words: all 18 are XORed with the key and used by the first encryption of every key")


if __name__ == "__main__":
    main()
