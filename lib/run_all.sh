#!/bin/bash
# runs every claimed check (quick tier by default) on /repo and prints one line each
cd "$(dirname "$0")/.."
tier=${1:-quick}
for id in $(python3 -c "import json; print(' '.join(c['property_id'] for c in json.load(open('MANIFEST.json'))['checks']))"); do
  s=$(date +%s); out=$(./check $id --tier $tier 2>&1); rc=$?; e=$(date +%s)
  echo "$id rc=$rc $((e-s))s $(echo "$out" | grep -E 'VIOLATION|KNOWN-FINDING|ok:' | tr '\n' ' ' | cut -c1-220)"
done
