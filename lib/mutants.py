#!/usr/bin/env python3
"""
lib/mutants.py — developer tool (not a check, never part of a verdict): systematic single-token
mutation of /repo's anchored source files, to measure which realistic slips the quick checks notice
and to point at blind spots of the correspondence generators.

  lib/mutants.py gen  <out.json> [--per-file N] [--seed S] [file …]   candidate list (only lines the
        correspondence executes: needs work/cov/ALL.profdata from lib/coverage.sh)
  lib/mutants.py lane <cands.json> <lane-dir> <k> <n>     run candidates k, k+n, k+2n, … in the lane
        (<lane-dir>/verif = copy of /verif with its builds, <lane-dir>/repo = worktree of /repo);
        results appended to <lane-dir>/results.jsonl
  lib/mutants.py mklane <lane-dir>                        create such a lane
  lib/mutants.py report <lane-dir> …                      table of results

A mutant is "detected" when a quick check of a property anchored in the file exits 1 with a VIOLATION
line; "nobuild" when the harness does not compile; "survivor" otherwise — then the repository's own
test suite is run on it (a mutant the existing tests kill is outside the task's interest).
Survivors are triaged by hand (equivalent mutant / outside every property / generator gap).
"""
import sys, os, re, json, random, subprocess, time, glob

ROOT = os.path.dirname(os.path.dirname(os.path.abspath(__file__)))
REPO = "/repo"


def sh(cmd, **k):
    return subprocess.run(cmd, shell=True, text=True, stdout=subprocess.PIPE, stderr=subprocess.STDOUT, **k)


def anchors():
    m = {}
    for l in open(os.path.join(ROOT, "properties.jsonl")):
        p = json.loads(l)
        for f in p["anchors"]["files"]:
            m.setdefault(f, []).append(p["id"])
    return m


COST = {"C01": 7, "C02": 7, "C03": 70, "C04": 2, "C05": 12, "C06": 8, "C07": 6, "C08": 2, "C09": 6, "C10": 9,
        "C11": 4, "C12": 9, "C13": 9, "C14": 2, "C15": 3, "C16": 21, "C17": 18, "C18": 70}


def covered_lines(path):
    bin_ = glob.glob(os.path.expanduser("~/.rustup/toolchains/nightly-x86_64-unknown-linux-gnu/lib/rustlib/*/bin"))[0]
    r = sh("%s/llvm-cov show %s/work/covtarget/debug/harness -instr-profile=%s/work/cov/ALL.profdata %s" %
           (bin_, ROOT, ROOT, path))
    cov = set()
    for l in r.stdout.split("\n"):
        m = re.match(r"\s*(\d+)\|\s*([0-9.]+[kKMG]?)\|", l)
        if m and m.group(2) != "0":
            cov.add(int(m.group(1)))
    return cov


REL = [(" < ", " <= "), (" <= ", " < "), (" > ", " >= "), (" >= ", " > "), (" == ", " != "), (" != ", " == ")]
ARI = [(" + ", " - "), (" - ", " + "), (" * ", " + "), (" << ", " >> "), (" >> ", " << "), (" & ", " | "),
       (" | ", " & "), (" && ", " || "), (" || ", " && "), (" += ", " -= "), (" -= ", " += "), (" / ", " * "),
       (" % ", " / "), ("..=", ".."), (" ^ ", " | ")]
SKIP = re.compile(r"^\s*(//|use |pub use |mod |pub mod |#!\[|#\[derive|#\[allow|#\[cfg|#\[repr|#\[test)|"
                  r"\b(warn!|info!|debug!|trace!|println!|eprintln!|panic!|unimplemented!|todo!|assert)")
LIT = re.compile(r"(?<![\w.\"'])(0x[0-9a-fA-F][0-9a-fA-F_]*|\d[\d_]*)(?![\w.]*\")(?!\.\d)(?=(u8|u16|u32|u64|usize|i8|i16|i32|i64|isize)?\b)")


def candidates(rel, seed):
    path = os.path.join(REPO, rel)
    lines = open(path).read().split("\n")
    cov = covered_lines(path)
    end = len(lines)
    for i, l in enumerate(lines):
        if re.match(r"\s*mod tests?\s*\{", l) or (l.strip() == "#[cfg(test)]" and i + 1 < len(lines) and "mod " in lines[i + 1]):
            end = i
            break
    out = []
    for i in range(end):
        l = lines[i]
        ln = i + 1
        attr = re.match(r"\s*#\[(br|bw|brw|binrw|binread|binwrite)\b", l) is not None
        # attribute lines carry no execution count of their own: take them when the next code line is covered
        if not attr and ln not in cov:
            continue
        if attr:
            j = i + 1
            while j < end and (lines[j].strip().startswith("#[") or lines[j].strip().startswith("//")):
                j += 1
            # field declarations are not counted either: accept attribute lines of every struct in a covered file
        if SKIP.search(l):
            continue
        code = l.split("//")[0]
        for a, b in REL + ARI:
            for m in re.finditer(re.escape(a), code):
                out.append({"file": rel, "line": ln, "col": m.start(), "old": a, "new": b, "kind": "op"})
        for m in LIT.finditer(code):
            tok = m.group(1)
            try:
                v = int(tok.replace("_", ""), 16 if tok.startswith("0x") else 10)
            except ValueError:
                continue
            for d in (1, -1):
                if v + d < 0:
                    continue
                nv = v + d
                new = ("0x%X" % nv) if tok.startswith("0x") else str(nv)
                out.append({"file": rel, "line": ln, "col": m.start(1), "old": tok, "new": new, "kind": "lit"})
        for m in re.finditer(r"\{:0(\d)(x?)\}", code):
            out.append({"file": rel, "line": ln, "col": m.start(), "old": m.group(0),
                        "new": "{:0%d%s}" % (int(m.group(1)) - 1, m.group(2)), "kind": "fmt"})
        for a, b in (("true", "false"), ("false", "true")):
            for m in re.finditer(r"\b%s\b" % a, code):
                out.append({"file": rel, "line": ln, "col": m.start(), "old": a, "new": b, "kind": "bool"})
        for a, b in ((".to_lowercase()", ""), (".to_ascii_lowercase()", ""), ("read_le", "read_be"), ("read_be", "read_le"),
                     ("SeekFrom::Start", "SeekFrom::Current"), ("big", "little"), ("little", "big"),
                     ("pad_before", "pad_after"), ("pad_after", "pad_before"), (" as u16", " as u8"), (" as u32", " as u16"),
                     (" as u64", " as u32"), ("wrapping_add", "wrapping_sub"), (".min(", ".max("), (".max(", ".min("),
                     # second operator set (run 2)
                     (" + 1", ""), (" - 1", ""), (".first()", ".last()"), (".last()", ".first()"), (".find(", ".rfind("),
                     (".rfind(", ".find("), (".split_once(", ".rsplit_once("), (".rsplit_once(", ".split_once("),
                     ("starts_with", "ends_with"), ("from_le_bytes", "from_be_bytes"), ("from_be_bytes", "from_le_bytes"),
                     ("checked_add", "wrapping_add"), ("checked_sub", "wrapping_sub"), ("checked_mul", "wrapping_mul"),
                     ("saturating_sub", "wrapping_sub"), (".position(", ".rposition("), (" as i32", " as i16"),
                     (" as usize", " as u16 as usize"), ("continue;", "break;"), ("u32::try_from", "u16::try_from"),
                     ("usize::try_from", "u16::try_from"), (".trim_end_matches(", ".trim_matches("),
                     (".to_ascii_lowercase()", ".to_ascii_uppercase()"), (".to_lowercase()", ".to_uppercase()"),
                     (".iter().enumerate()", ".iter().rev().enumerate()"), (".skip(", ".take("), (".take(", ".skip("),
                     (" as u8", " as i8 as u8"), ("i64", "i32"), ("u64", "u32"), ("..", "..=")):
            for m in re.finditer(re.escape(a), code):
                out.append({"file": rel, "line": ln, "col": m.start(), "old": a, "new": b, "kind": "swap"})
        s = code.strip()
        if (not attr and s.endswith(";") and not s.startswith(("let ", "return", "break", "continue", "}"))
                and "=" not in s.split("(")[0] and "(" in s and code.count("(") == code.count(")")):
            out.append({"file": rel, "line": ln, "col": 0, "old": code, "new": "", "kind": "delstmt"})
    return out


def apply_mut(repo, c):
    p = os.path.join(repo, c["file"])
    lines = open(p).read().split("\n")
    l = lines[c["line"] - 1]
    if c["kind"] == "delstmt":
        lines[c["line"] - 1] = ""
    else:
        assert l[c["col"]:c["col"] + len(c["old"])] == c["old"], (l, c)
        lines[c["line"] - 1] = l[:c["col"]] + c["new"] + l[c["col"] + len(c["old"]):]
    open(p, "w").write("\n".join(lines))


def cmd_gen(argv):
    out = argv[0]
    per = 12
    seed = 1
    files = []
    i = 1
    while i < len(argv):
        if argv[i] == "--per-file":
            per = int(argv[i + 1]); i += 2
        elif argv[i] == "--seed":
            seed = int(argv[i + 1]); i += 2
        else:
            files.append(argv[i]); i += 1
    anc = anchors()
    if not files:
        files = sorted(anc)
    rng = random.Random(seed)
    allc = []
    for f in files:
        if not os.path.exists(os.path.join(REPO, f)):
            continue
        cs = candidates(f, seed)
        if os.environ.get("MUT_NEWS"):   # only replacements whose new text is listed (comma separated)
            news = set(os.environ["MUT_NEWS"].split(","))
            cs = [c for c in cs if c["new"].strip() in news or (c["new"] == "" and c["kind"] == "swap")]
        rng.shuffle(cs)
        # spread over distinct lines first
        seen, pick = set(), []
        for c in cs:
            if c["line"] not in seen:
                seen.add(c["line"]); pick.append(c)
            if len(pick) >= max(per, min(3 * per, len(cs) // 12)):
                break
        for c in pick:
            c["props"] = sorted(anc.get(f, []), key=lambda x: COST[x])
        print("%-40s %4d candidates, %d picked" % (f, len(cs), len(pick)))
        allc += pick
    rng.shuffle(allc)
    # mutants of earlier runs (notes/mutants-run*.json) are not drawn again
    seen = set()
    for pj in glob.glob(os.path.join(ROOT, "notes", "mutants-run*.json")):
        for r in json.load(open(pj)):
            seen.add((r["file"], r["line"], r["col"], r["new"]))
    allc = [c for c in allc if (c["file"], c["line"], c["col"], c["new"]) not in seen]
    json.dump(allc, open(out, "w"), indent=0)
    print(len(allc), "mutants ->", out)


def cmd_mklane(argv):
    d = argv[0]
    os.makedirs(d, exist_ok=True)
    sh("rsync -a --exclude .git --exclude work --exclude replays %s/ %s/verif/" % (ROOT, d))
    os.makedirs(d + "/verif/work", exist_ok=True)
    if not os.path.isdir(d + "/repo"):
        print(sh("git -C /repo worktree add --detach %s/repo" % d).stdout)
    # carry the uncommitted state of /repo? no: lanes always start from HEAD
    print("lane", d, "ready")


def cmd_lane(argv):
    cands = json.load(open(argv[0]))
    d, k, n = argv[1], int(argv[2]), int(argv[3])
    repo, verif = d + "/repo", d + "/verif"
    res = open(d + "/results.jsonl", "a")
    done = set()
    if os.path.exists(d + "/results.jsonl"):
        for l in open(d + "/results.jsonl"):
            try:
                r = json.loads(l); done.add((r["file"], r["line"], r["col"], r["new"]))
            except Exception:
                pass
    for idx in range(k, len(cands), n):
        c = cands[idx]
        if (c["file"], c["line"], c["col"], c["new"]) in done:
            continue
        sh("git -C %s checkout -q -- ." % repo)
        try:
            apply_mut(repo, c)
        except AssertionError:
            continue
        t0 = time.time()
        verdict, by, vio = "survivor", None, ""
        for pid in c["props"]:
            r = sh("VERIF_REPO=%s ./check %s --tier quick" % (repo, pid), cwd=verif)
            v = [l for l in r.stdout.split("\n") if l.startswith("VIOLATION")]
            if r.returncode == 1 and v:
                verdict, by, vio = "detected", pid, v[0]
                break
            if r.returncode == 2:
                verdict = "nobuild"
                vio = r.stdout[-300:]
                break
            if r.returncode not in (0, 1):
                verdict, vio = "error", r.stdout[-300:]
                break
        if verdict == "survivor":
            r = sh("CARGO_NET_OFFLINE=true cargo test --offline --lib -- --skip patch::tests 2>&1 | tail -5", cwd=repo)
            if "test result: ok" not in r.stdout:
                verdict = "killed-by-repo-tests"
        c2 = dict(c, verdict=verdict, by=by, vio=vio[:300], secs=round(time.time() - t0, 1),
                  src=open(os.path.join(REPO, c["file"])).read().split("\n")[c["line"] - 1].strip()[:160])
        res.write(json.dumps(c2) + "\n"); res.flush()
        print(idx, c["file"], c["line"], c["old"].strip()[:30], "->", c["new"].strip()[:30], verdict, by or "", flush=True)
    sh("git -C %s checkout -q -- ." % repo)


def cmd_report(argv):
    rows = []
    for d in argv:
        p = d + "/results.jsonl"
        if os.path.exists(p):
            rows += [json.loads(l) for l in open(p) if l.strip()]
    from collections import Counter
    c = Counter(r["verdict"] for r in rows)
    print(dict(c))
    for r in rows:
        if r["verdict"] in ("survivor", "error"):
            print("%s %s:%d [%s] `%s` -> `%s`   | %s" % (r["verdict"].upper(), r["file"], r["line"], r["kind"],
                                                          r["old"].strip()[:40], r["new"].strip()[:40], r["src"]))


if __name__ == "__main__":
    {"gen": cmd_gen, "lane": cmd_lane, "mklane": cmd_mklane, "report": cmd_report}[sys.argv[1]](sys.argv[2:])
