#!/usr/bin/env python3
"""
lib/apply_fixes.py <ID> [--dry]
Applies fixes/<ID>-NN-<slug>.patch (in numeric order) to /repo, one `fix:` commit each (message
from the matching .msg file), and writes the commit hash into known/<ID>.jsonl entries whose
"key" equals <slug> (or whose commit is PENDING and whose key is a prefix/suffix match).
Stops at the first patch that does not apply.
"""
import sys, os, re, subprocess, json, glob
ROOT = os.path.dirname(os.path.dirname(os.path.abspath(__file__)))
REPO = "/repo"
pid = sys.argv[1]
dry = "--dry" in sys.argv


def sh(*a, **k):
    return subprocess.run(a, text=True, stdout=subprocess.PIPE, stderr=subprocess.STDOUT, **k)


patches = sorted(glob.glob(os.path.join(ROOT, "fixes", pid + "-*.patch")))
# patches whose slug already has a commit recorded in known/<pid>*.jsonl were applied earlier
recorded = set()
for kfp in glob.glob(os.path.join(ROOT, "known", pid + "*.jsonl")):
    for l in open(kfp):
        if l.strip() and not l.startswith("#"):
            k = json.loads(l)
            if k.get("status") == "fixed" and k.get("commit") not in (None, "PENDING"):
                recorded.add(k["key"])
applied_log = os.path.join(ROOT, "fixes", "APPLIED")
already = set(open(applied_log).read().split()) if os.path.exists(applied_log) else set()
done = {}
for p in patches:
    slug = re.sub(r"^%s-\d+-" % pid, "", os.path.basename(p)[:-6])
    msgf = p[:-6] + ".msg"
    msg = open(msgf).read().strip() if os.path.exists(msgf) else "fix: " + slug
    if not msg.startswith("fix:"):
        msg = "fix: " + msg
    if os.path.basename(p) in already:
        continue    # already applied (recorded in fixes/APPLIED)
    if sh("git", "-C", REPO, "apply", "--check", "--reverse", p).returncode == 0:
        continue    # already applied
    r = sh("git", "-C", REPO, "apply", "--check", p)
    if r.returncode != 0:
        r3 = sh("git", "-C", REPO, "apply", "--check", "--3way", p)
        print("DOES NOT APPLY CLEANLY:", p, r.stdout[:500], "| 3way:", r3.returncode)
        if r3.returncode != 0:
            break
    if dry:
        print("would apply", p, "|", msg.split("\n")[0])
        continue
    r = sh("git", "-C", REPO, "apply", "--3way", p)
    if r.returncode != 0:
        print("apply failed", p, r.stdout)
        break
    sh("git", "-C", REPO, "add", "-A", "src")
    r = sh("git", "-C", REPO, "commit", "-q", "-m", msg)
    h = sh("git", "-C", REPO, "rev-parse", "--short", "HEAD").stdout.strip()
    print("applied", os.path.basename(p), "->", h, "|", msg.split("\n")[0])
    done[slug] = h
    with open(applied_log, "a") as f:
        f.write(os.path.basename(p) + "\n")
for kf in sorted(glob.glob(os.path.join(ROOT, "known", pid + "*.jsonl"))) if done else []:
    out = []
    for l in open(kf):
        if l.strip() and not l.startswith("#"):
            k = json.loads(l)
            if k.get("status") == "fixed" and k.get("commit") in (None, "PENDING"):
                for slug, h in done.items():
                    if k["key"] == slug or slug in k["key"] or k["key"] in slug:
                        k["commit"] = h
            out.append(json.dumps(k))
        else:
            out.append(l.rstrip("\n"))
    open(kf, "w").write("\n".join(out) + "\n")
