#!/usr/bin/env python3
"""
lib/test_seeds.py [name-filter…]  — runs the checks against the seeded changes.
For every seeded/<name>/ (patch.diff + meta.json with "breaks_property"): apply the patch to a
scratch worktree of /repo (never /repo itself), run `VERIF_REPO=<wt> ./check <ID>` (quick tier),
record exit status, VIOLATION line and replay summary in meta.json["detected_by_check"], undo.
"""
import sys, os, json, subprocess, glob
ROOT = os.path.dirname(os.path.dirname(os.path.abspath(__file__)))
WT = os.environ.get("SEED_WT", "/tmp/rw/seedtest")


def sh(cmd, **k):
    return subprocess.run(cmd, shell=True, text=True, stdout=subprocess.PIPE, stderr=subprocess.STDOUT, **k)


if not os.path.isdir(WT):
    sh("git -C /repo worktree add --detach %s" % WT)
head = sh("git -C /repo rev-parse HEAD").stdout.strip()
sh("git -C %s checkout -q --detach %s && git -C %s checkout -q -- ." % (WT, head, WT))
flt = sys.argv[1:]
claimed = {c["property_id"] for c in json.load(open(os.path.join(ROOT, "MANIFEST.json")))["checks"]}
rows = []
for d in sorted(glob.glob(os.path.join(ROOT, "seeded", "*"))):
    name = os.path.basename(d)
    if flt and not any(f in name for f in flt):
        continue
    mp = os.path.join(d, "meta.json")
    meta = json.load(open(mp))
    pid = meta["breaks_property"]
    if pid not in claimed:
        rows.append((name, pid, "check not claimed yet"))
        continue
    r = sh("git -C %s apply %s" % (WT, os.path.join(d, "patch.diff")))
    if r.returncode != 0:
        meta["detected_by_check"] = "patch no longer applies to /repo HEAD: " + r.stdout[:200]
        json.dump(meta, open(mp, "w"), indent=1)
        rows.append((name, pid, "PATCH DOES NOT APPLY"))
        continue
    r = sh("VERIF_REPO=%s ./check %s --tier quick" % (WT, pid), cwd=ROOT)
    sh("git -C %s checkout -q -- ." % WT)
    vio = [l for l in r.stdout.split("\n") if l.startswith("VIOLATION")]
    summary = ""
    if vio:
        rp = vio[0].split("replay=")[1].split()[0]
        try:
            rj = json.load(open(os.path.join(ROOT, rp)))
            if rj.get("cases"):
                c = rj["cases"][0]
                summary = "case `%s` expected `%s` got `%s`" % (c["case"][:120], c["expected"][:80], c["actual"][:80])
            elif rj.get("witness"):
                summary = rj["witness"][0][:200]
            else:
                summary = "broken: %s" % rj.get("broken_obligations")
        except Exception as e:
            summary = "(replay unreadable: %s)" % e
    res = ("yes" if (r.returncode == 1 and vio) else "NO") + ": exit %d; %s; %s" % (r.returncode, vio[0] if vio else "no VIOLATION line", summary)
    meta["detected_by_check"] = res
    json.dump(meta, open(mp, "w"), indent=1)
    rows.append((name, pid, res[:200]))
# the runs above regenerated Generated/*.lean from mutated trees: put the committed files back
sh("git checkout -- lean/PhysisModel/Generated", cwd=ROOT)
for r in rows:
    print("%-10s %-4s %s" % r)
