#!/bin/bash
# lib/import_seeds.sh <srcroot> <tag> <ID>...  : copies <srcroot>/<ID>/out/m<k>.* to seeded/<ID>-<tag>m<k>/
src=$1; tag=$2; shift 2
for pid in "$@"; do
  for meta in $src/$pid/out/m*.meta.json; do
    [ -f "$meta" ] || continue
    k=$(basename $meta | sed 's/^m\([0-9]*\)\.meta\.json/\1/')
    d=/verif/seeded/$pid-${tag}m$k
    [ -d "$d" ] && continue
    mkdir -p $d; cp $src/$pid/out/m$k.patch.diff $d/patch.diff; cp $src/$pid/out/m${k}_demo.rs $d/demo.rs
    python3 - "$meta" "$d" "$pid" <<'PY'
import json,sys
m=json.load(open(sys.argv[1])); m['breaks_property']=sys.argv[3]; m['detected_by_check']='pending'
json.dump(m,open(sys.argv[2]+'/meta.json','w'),indent=1)
PY
    echo imported $d
  done
done
