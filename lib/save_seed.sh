save () 
{ 
    pid=$1;
    k=$2;
    caught=$3;
    d=seeded/$pid-m$k;
    mkdir -p $d;
    cp /tmp/seed/$pid/out/m$k.patch.diff $d/patch.diff;
    cp /tmp/seed/$pid/out/m${k}_demo.rs $d/demo.rs;
    python3 - "$pid" "$k" "$caught" <<'EOF'
import json,sys
pid,k,caught=sys.argv[1:4]
m=json.load(open(f'/tmp/seed/{pid}/out/m{k}.meta.json'))
m['breaks_property']=pid
m['detected_by_check']=caught
json.dump(m,open(f'/verif/seeded/{pid}-m{k}/meta.json','w'),indent=1)
EOF

}
