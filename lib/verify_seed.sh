#!/bin/bash
# lib/verify_seed.sh <seeded/dir> [worktree]  — confirms a seeded change independently:
#   demo passes on the unchanged tree, fails with the patch, and the repo's own tests still pass
#   with the patch.  Uses a scratch worktree of /repo (created if missing), left clean.
d=$(realpath "$1"); wt=${2:-/tmp/rw/seedverify}
[ -d "$wt" ] || git -C /repo worktree add --detach "$wt" -q
cd "$wt" && git checkout -q --detach "$(git -C /repo rev-parse HEAD)" && git checkout -q -- . && rm -f tests/seed_demo.rs
cp "$d/demo.rs" tests/seed_demo.rs
export CARGO_NET_OFFLINE=true
cargo test --offline --test seed_demo >/tmp/seedverify.$$.a 2>&1; a=$?
git apply "$d/patch.diff" || { echo "PATCH DOES NOT APPLY"; rm -f tests/seed_demo.rs; exit 3; }
cargo test --offline --test seed_demo >/tmp/seedverify.$$.b 2>&1; b=$?
cargo test --offline --lib -- --skip patch::tests >/tmp/seedverify.$$.c 2>&1; c=$?
rm -f tests/seed_demo.rs; git checkout -q -- .
res="demo_without_patch=$([ $a = 0 ] && echo pass || echo FAIL) demo_with_patch=$([ $b != 0 ] && echo fail || echo PASS) suite_with_patch=$([ $c = 0 ] && echo pass || echo FAIL)"
echo "$(basename $d): $res"
python3 - "$d" "$res" <<'PY'
import json,sys
p=sys.argv[1]+'/meta.json'; m=json.load(open(p)); m['confirmed_by_lead']=sys.argv[2]; json.dump(m,open(p,'w'),indent=1)
PY
rm -f /tmp/seedverify.$$.*
[ $a = 0 ] && [ $b != 0 ] && [ $c = 0 ]
