#!/usr/bin/env python3
"""
T4 — translator from the binrw declarations in /repo's *current* Rust source to Lean layout
descriptors (`PhysisModel/Base/Binrw.lean`: `Layout`, `Field`, `Kind`).

usage: binrw2lean.py <GeneratedModuleName> <repo-root> [--json]
       (Lean source on stdout; `lib/extract.py <Binrw…> <repo>` delegates to this file)

For every (file, item) of the module's spec list the item's source text is parsed and the
attribute subset of plain layouts is translated:
  struct level : #[brw|br(little|big)], magic = b"…" | b'c' | <int><suffix>
  field level  : little|big, magic, pad_before, pad_after, pad_size_to (integer literals),
                 count = <integer literal> | <earlier field>, temp, err_context (ignored),
                 calc / try_calc / ignore / default (the field reads nothing and is left out)
  field types  : u8 u16 u32 u64 i8 i16 i32 i64 f32, [T; N], Vec<T> (needs count), a translated
                 struct of the same spec list, a `#[brw(repr = T)]` unit enum of the same spec list
  write-only attributes (#[bw(..)]) are not part of the reading layout and are skipped.
Anything else (map, try_map, parse_with, if, args, import-dependent expressions, assert, pre_assert,
seek_before, restore_position, align_*, offset, generics, tuple structs, cfg on a field …) stops the
translation of that struct *at that field*: the prefix read so far is emitted with
`complete := false` and the reason is recorded (`-- not translated: …` and `notTranslated`).
An item that is no longer found keeps its block from the previous Generated file (reported in the
output); nothing here raises on source it cannot parse.
Field names are emitted for information only; no theorem compares them.
"""
import os, re, sys, json

ROOT = os.path.dirname(os.path.dirname(os.path.abspath(__file__)))

# module -> list of (source file, Rust item name); enums/structs a struct refers to must come
# earlier in the same list.  One entry per line so that additions merge cleanly.
SPECS = {
    "BinrwIndex": [
        ("src/common.rs", "Platform"),
        ("src/common.rs", "Region"),
        ("src/sqpack/mod.rs", "SqPackFileType"),
        ("src/sqpack/mod.rs", "SqPackHeader"),
        ("src/sqpack/index.rs", "SegementDescriptor"),
        ("src/sqpack/index.rs", "IndexType"),
        ("src/sqpack/index.rs", "SqPackIndexHeader"),
        ("src/sqpack/index.rs", "DataEntry"),
        ("src/sqpack/index.rs", "FolderEntry"),
        ("src/sqpack/index.rs", "SqPackIndex"),
    ],
    "BinrwFiin": [
        ("src/fiin.rs", "FIINEntry"),
        ("src/fiin.rs", "FileInfo"),
    ],
    "BinrwTex": [
        ("src/tex.rs", "TextureAttribute"),
        ("src/tex.rs", "TextureFormat"),
        ("src/tex.rs", "TexHeader"),
    ],
    "BinrwExcel": [
        ("src/common.rs", "Language"),
        ("src/exh.rs", "EXHHeader"),
        ("src/exh.rs", "ColumnDataType"),
        ("src/exh.rs", "ExcelColumnDefinition"),
        ("src/exh.rs", "ExcelDataPagination"),
        ("src/exh.rs", "EXH"),
        ("src/exd.rs", "EXDHeader"),
        ("src/exd.rs", "ExcelDataOffset"),
        ("src/exd.rs", "ExcelDataRowHeader"),
        ("src/exd.rs", "EXD"),
    ],
    "BinrwDat": [
        ("src/sqpack/data.rs", "FileType"),
        ("src/sqpack/data.rs", "StandardFileBlock"),
        ("src/sqpack/data.rs", "TextureLodBlock"),
        ("src/sqpack/data.rs", "TextureBlock"),
        ("src/sqpack/data.rs", "ModelMemorySizes<u32>"),
        ("src/sqpack/data.rs", "ModelMemorySizes<u16>"),
        ("src/sqpack/data.rs", "ModelFileBlock"),
        ("src/sqpack/data.rs", "FileInfo"),
        ("src/sqpack/data.rs", "Block"),
        ("src/sqpack/data.rs", "BlockHeader"),
    ],
    "BinrwMdl": [
        ("src/model.rs", "ModelFileHeader"),
        ("src/model.rs", "MeshLod"),
        ("src/model.rs", "Mesh"),
        ("src/model.rs", "Submesh"),
        ("src/model.rs", "BoneTable"),
        ("src/model.rs", "BoneTableV2"),
        ("src/model.rs", "BoundingBox"),
        ("src/model.rs", "TerrainShadowMesh"),
        ("src/model.rs", "TerrainShadowSubmesh"),
        ("src/model.rs", "ShapeStruct"),
        ("src/model.rs", "ShapeMesh"),
        ("src/model.rs", "ShapeValue"),
        ("src/model.rs", "ElementId"),
        ("src/model.rs", "ModelData"),
    ],
    "BinrwMs": [
        ("src/mtrl.rs", "MaterialFileHeader"),
        ("src/mtrl.rs", "MaterialHeader"),
        ("src/mtrl.rs", "ColorSet"),
        ("src/mtrl.rs", "ShaderKey"),
        ("src/mtrl.rs", "ConstantStruct"),
        ("src/mtrl.rs", "MaterialData"),
        ("src/shpk.rs", "MaterialParameter"),
        ("src/shpk.rs", "Key"),
        ("src/shpk.rs", "Pass"),
        ("src/shpk.rs", "NodeAlias"),
        ("src/shpk.rs", "ShaderPackage"),
    ],
    "BinrwPatch": [
        ("src/common.rs", "Platform"),
        ("src/common.rs", "Region"),
        ("src/patch.rs", "SqpkTargetInfo"),
        ("src/patch.rs", "SqpkAddData"),
        ("src/patch.rs", "SqpkDeleteData"),
        ("src/patch.rs", "SqpkPatchInfo"),
        ("src/patch.rs", "ApplyOption"),
        ("src/patch.rs", "ApplyOptionChunk"),
    ],
    "BinrwAux": [
        ("src/cmp.rs", "RacialScalingParameters"),
        ("src/tera.rs", "PlatePosition"),
        ("src/tera.rs", "TerrainHeader"),
    ],
}

PRIMS = {"u8": 1, "i8": 1, "u16": 2, "i16": 2, "u32": 4, "i32": 4, "f32": 4, "u64": 8, "i64": 8}


class Unsupported(Exception):
    pass


# ------------------------------------------------------------------------------------------
# lexical helpers
# ------------------------------------------------------------------------------------------
def strip_comments(s):
    """remove // and (nested) /* */ comments, keeping string / byte-string / char literals intact"""
    out = []
    i, n = 0, len(s)
    while i < n:
        c = s[i]
        if s.startswith("//", i):
            j = s.find("\n", i)
            i = n if j < 0 else j
        elif s.startswith("/*", i):
            depth, i = 1, i + 2
            while i < n and depth:
                if s.startswith("/*", i):
                    depth, i = depth + 1, i + 2
                elif s.startswith("*/", i):
                    depth, i = depth - 1, i + 2
                else:
                    i += 1
            out.append(" ")
        elif c == '"':
            j = i + 1
            while j < n and s[j] != '"':
                j += 2 if s[j] == "\\" else 1
            out.append(s[i:j + 1])
            i = j + 1
        elif c == "'" and i + 2 < n and (s[i + 1] == "\\" or s[i + 2] == "'"):
            # char literal ('x' or '\n'); lifetimes ('a) fall through
            j = i + 1
            while j < n and s[j] != "'":
                j += 2 if s[j] == "\\" else 1
            out.append(s[i:j + 1])
            i = j + 1
        else:
            out.append(c)
            i += 1
    return "".join(out)


OPEN, CLOSE = "([{", ")]}"


def match_close(s, i):
    """s[i] is an opening bracket: index of its partner (string literals skipped); -1 if none"""
    depth, n = 0, len(s)
    while i < n:
        c = s[i]
        if c == '"':
            i += 1
            while i < n and s[i] != '"':
                i += 2 if s[i] == "\\" else 1
        elif c == "'" and i + 2 < n and (s[i + 1] == "\\" or s[i + 2] == "'"):
            i += 1
            while i < n and s[i] != "'":
                i += 2 if s[i] == "\\" else 1
        elif c in OPEN:
            depth += 1
        elif c in CLOSE:
            depth -= 1
            if depth == 0:
                return i
        i += 1
    return -1


def split_top(s, sep=","):
    """split at separators that are outside every bracket / angle pair / string"""
    parts, cur, depth, angle, i, n = [], [], 0, 0, 0, len(s)
    while i < n:
        c = s[i]
        if c == '"' or (c == "'" and i + 2 < n and (s[i + 1] == "\\" or s[i + 2] == "'")):
            q = c
            j = i + 1
            while j < n and s[j] != q:
                j += 2 if s[j] == "\\" else 1
            cur.append(s[i:j + 1])
            i = j + 1
            continue
        if c in OPEN:
            depth += 1
        elif c in CLOSE:
            depth -= 1
        elif c == "<" and depth == 0:
            angle += 1
        elif c == ">" and depth == 0 and angle > 0 and (i == 0 or s[i - 1] != "-"):
            angle -= 1
        if c == sep and depth == 0 and angle == 0:
            parts.append("".join(cur))
            cur = []
        else:
            cur.append(c)
        i += 1
    parts.append("".join(cur))
    return [p.strip() for p in parts if p.strip()]


def take_attrs(s):
    """leading `#[...]` groups of s -> (list of attribute bodies, rest)"""
    attrs = []
    s = s.lstrip()
    while s.startswith("#"):
        m = re.match(r"#\s*!?\s*\[", s)
        if not m:
            break
        j = match_close(s, m.end() - 1)
        if j < 0:
            raise Unsupported("unbalanced attribute")
        attrs.append(s[m.end():j].strip())
        s = s[j + 1:].lstrip()
    return attrs, s


def int_lit(t, want_suffix=False):
    """Rust integer literal (optionally negative, with _ and a type suffix) -> (value, suffix|None)"""
    t = t.strip()
    m = re.fullmatch(r"(-?)\s*(0[xX][0-9A-Fa-f_]+|0[bB][01_]+|0[oO][0-7_]+|\d[\d_]*)\s*(u8|u16|u32|u64|usize|i8|i16|i32|i64|isize)?", t)
    if not m:
        raise Unsupported("not an integer literal: `%s`" % t[:40])
    v = int(m.group(2).replace("_", ""), 0) if not m.group(2).lower().startswith("0o") else int(m.group(2)[2:].replace("_", ""), 8)
    if m.group(1):
        v = -v
    return (v, m.group(3)) if want_suffix else v


def byte_string(t):
    """b"…" -> list of byte values"""
    body = t[2:-1]
    out, i = [], 0
    while i < len(body):
        c = body[i]
        if c == "\\":
            e = body[i + 1]
            if e == "x":
                out.append(int(body[i + 2:i + 4], 16))
                i += 4
                continue
            table = {"0": 0, "n": 10, "r": 13, "t": 9, "\\": 92, '"': 34, "'": 39}
            if e not in table:
                raise Unsupported("byte-string escape \\%s" % e)
            out.append(table[e])
            i += 2
        else:
            if ord(c) > 127:
                raise Unsupported("non-ASCII byte string")
            out.append(ord(c))
            i += 1
    return out


# ------------------------------------------------------------------------------------------
# items
# ------------------------------------------------------------------------------------------
def find_item(src, name):
    """-> (kind 'struct'|'enum', attrs, body text, body bracket '{'|'(') or None"""
    for m in re.finditer(r"\b(struct|enum)\s+%s\b" % re.escape(name), src):
        # walk back over visibility and attributes
        k = m.start()
        head = src[:k].rstrip()
        mv = re.search(r"pub\s*(\([^)]*\))?$", head)
        if mv:
            head = head[:mv.start()].rstrip()
        attrs = []
        while head.endswith("]"):
            # find the `#[` that opens this group
            depth, j = 0, len(head) - 1
            while j >= 0:
                if head[j] in CLOSE:
                    depth += 1
                elif head[j] in OPEN:
                    depth -= 1
                    if depth == 0:
                        break
                j -= 1
            mh = re.search(r"#\s*$", head[:j])
            if j < 0 or not mh:
                break
            attrs.insert(0, head[j + 1:-1].strip())
            head = head[:mh.start()].rstrip()
        rest = src[m.end():]
        r2 = rest.lstrip()
        if r2.startswith("<"):
            # generic item: parameter names and body, for the instantiations named in the spec list
            depth, j = 0, 0
            while j < len(r2):
                if r2[j] == "<":
                    depth += 1
                elif r2[j] == ">" and r2[j - 1] != "-":
                    depth -= 1
                    if depth == 0:
                        break
                j += 1
            params = [re.match(r"\s*([A-Za-z_]\w*)", q).group(1) for q in split_top(r2[1:j])
                      if re.match(r"\s*[A-Za-z_]", q) and not q.strip().startswith("const")]
            r3 = r2[j + 1:].lstrip()
            if r3.startswith("{"):
                k2 = match_close(r3, 0)
                if k2 > 0:
                    return (m.group(1), attrs, (params, r3[1:k2]), "generic")
            return (m.group(1), attrs, None, "generic")
        mb = re.match(r":\s*(u8|u16|u32|u64|i8|i16|i32|i64)\s*\{", r2)
        if mb and m.group(1) == "struct":
            # inside `bitflags! { … }`: the struct is a transparent wrapper of that integer
            return ("bitflags", attrs, mb.group(1), "{")
        if r2.startswith("{") or r2.startswith("("):
            j = match_close(r2, 0)
            if j < 0:
                continue
            return (m.group(1), attrs, r2[1:j], r2[0])
        if r2.startswith(";"):
            return (m.group(1), attrs, "", "{")
    return None


def directives(attrs):
    """binrw directives that affect reading: list of (key, value|None); bw(..) is skipped"""
    out = []
    for a in attrs:
        m = re.match(r"(brw|br|bw|binrw|binread|binwrite)\s*(\((.*)\))?\s*$", a, flags=re.S)
        if not m or m.group(1) in ("bw", "binrw", "binread", "binwrite") or m.group(3) is None:
            if re.match(r"cfg\s*\(", a):
                out.append(("cfg", a))
            continue
        for d in split_top(m.group(3)):
            md = re.match(r"([a-z_]+)\s*(?:=\s*(.*)|(\(.*\)|\{.*\}))?$", d, flags=re.S)
            if not md:
                out.append(("?", d))
            else:
                out.append((md.group(1), md.group(2) if md.group(2) is not None else md.group(3)))
    return out


def parse_magic(v):
    v = v.strip()
    if v.startswith('b"') and v.endswith('"'):
        return ("bytes", byte_string(v))
    m = re.fullmatch(r"b'(\\?.)'", v)
    if m:
        return ("int", "u8", byte_string('b"%s"' % m.group(1))[0])
    val, suf = int_lit(v, want_suffix=True)
    if suf not in PRIMS:
        raise Unsupported("magic literal without a fixed-width suffix: `%s`" % v[:30])
    return ("int", suf, val % (1 << (8 * PRIMS[suf])))


def parse_enum(attrs, body):
    ds = directives(attrs)
    repr_t = None
    enum_endian = None
    for k, v in ds:
        if k == "repr":
            repr_t = v.strip().strip("()").strip()
        elif k in ("little", "big"):
            enum_endian = k      # the enum's own attribute wins over the endianness passed by the field
        else:
            raise Unsupported("enum-level `%s`" % k)
    if repr_t not in PRIMS or repr_t == "f32":
        raise Unsupported("enum without an integer `repr`")
    vals, nxt = [], 0
    for item in split_top(body):
        va, rest = take_attrs(item)
        if directives(va):
            raise Unsupported("variant attribute")
        m = re.fullmatch(r"([A-Za-z_]\w*)\s*(?:=\s*(.+))?", rest.strip(), flags=re.S)
        if not m:
            raise Unsupported("non-unit variant `%s`" % rest.strip()[:30])
        if m.group(2) is not None:
            nxt = int_lit(m.group(2))
        vals.append(nxt % (1 << (8 * PRIMS[repr_t])))
        nxt += 1
    return {"kind": "enum", "repr": repr_t, "valid": vals, "endian": enum_endian}


def parse_type(t, ds, known, fields):
    """-> Lean `Kind` term"""
    t = t.strip()
    cnt = None
    for k, v in ds:
        if k == "count":
            v = v.strip()
            if re.fullmatch(r"[A-Za-z_]\w*", v):
                idx = [i for i, f in enumerate(fields) if f["name"] == v]
                if not idx:
                    raise Unsupported("count = `%s` is not an earlier read field" % v)
                if not fields[idx[-1]]["kind"].startswith(".prim"):
                    raise Unsupported("count field `%s` is not a primitive" % v)
                cnt = ".field %d" % idx[-1]
            else:
                try:
                    cnt = ".lit %d" % int_lit(v)
                except Unsupported:
                    raise Unsupported("count expression `%s`" % v[:40])
    m = re.fullmatch(r"\[\s*(.+?)\s*;\s*(.+?)\s*\]", t, flags=re.S)
    if m:
        if cnt is not None:
            raise Unsupported("count on an array")
        n = ".lit %d" % int_lit(m.group(2))
        return ".bytes (%s)" % n if m.group(1) == "u8" else ".array (%s) (%s)" % (n, parse_type(m.group(1), [], known, fields))
    m = re.fullmatch(r"Vec\s*<\s*(.+?)\s*>", t, flags=re.S)
    if m:
        if cnt is None:
            raise Unsupported("Vec without a translatable count")
        return ".bytes (%s)" % cnt if m.group(1) == "u8" else ".array (%s) (%s)" % (cnt, parse_type(m.group(1), [], known, fields))
    if cnt is not None:
        raise Unsupported("count on `%s`" % t[:30])
    if t in PRIMS:
        return ".prim .%s" % t
    base = t.replace(" ", "")
    if base not in known:
        base = t.split("::")[-1]
    if base in known:
        it = known[base]
        if it["kind"] == "enum":
            return ".enum .%s [%s]" % (it["repr"], ", ".join(str(x) for x in it["valid"]))
        if it["kind"] == "struct":
            return ".struct %s" % it["lean"]
        if it["kind"] == "alias":
            return ".prim .%s" % it["prim"]
    raise Unsupported("type `%s`" % t[:40])


FIELD_OK = {"little", "big", "magic", "pad_before", "pad_after", "pad_size_to", "count", "temp", "err_context", "dbg", "map"}


def map_read_type(v):
    """`map = |x: T| …` or `map = f::<T>`: binrw reads a `T` and applies the (total) function to it;
    the layout is that of `T`, the function is the model's business.  Anything else is unsupported."""
    v = v.strip()
    m = re.match(r"\|\s*(?:mut\s+)?[A-Za-z_]\w*\s*:\s*([^|]+?)\s*\|", v)
    if m:
        return " ".join(m.group(1).replace("&", "").split())
    m = re.fullmatch(r"[A-Za-z_][\w:]*::<\s*([^<>]+?)\s*>", v)
    if m:
        return m.group(1)
    raise Unsupported("map without an explicit read type")
FIELD_SKIP = {"calc", "try_calc", "ignore", "default"}


def lean_magic(m):
    if m is None:
        return ".none"
    if m[0] == "bytes":
        return "(.bytes [%s])" % ", ".join(str(b) for b in m[1])
    return "(.int .%s %d)" % (m[1], m[2])


def parse_struct(attrs, body, bracket, known):
    res = {"kind": "struct", "endian": None, "magic": None, "fields": [], "complete": True, "reason": None}
    try:
        for k, v in directives(attrs):
            if k in ("little", "big"):
                res["endian"] = k
            elif k == "magic":
                res["magic"] = parse_magic(v)
            elif k == "import":
                # arguments only matter where a field uses them; such a field stops the translation
                pass
            else:
                raise Unsupported("struct-level `%s`" % k)
        if bracket == "generic":
            raise Unsupported("generic struct")
        if bracket == "(":
            raise Unsupported("tuple struct")
        for item in split_top(body):
            fa, rest = take_attrs(item)
            m = re.fullmatch(r"(?:pub\s*(?:\([^)]*\))?\s*)?(r#)?([A-Za-z_]\w*)\s*:\s*(.+)", rest.strip(), flags=re.S)
            if not m:
                raise Unsupported("field syntax `%s`" % rest.strip()[:40])
            name, ty = m.group(2), " ".join(m.group(3).split())
            ds = directives(fa)
            bad = [k for k, _ in ds if k not in FIELD_OK and k not in FIELD_SKIP]
            if bad:
                raise Unsupported("field `%s`: `%s`" % (name, bad[0]))
            if any(k in FIELD_SKIP for k, _ in ds):
                if any(k in ("magic", "pad_before", "pad_after", "pad_size_to") for k, _ in ds):
                    raise Unsupported("field `%s`: padding on a computed field" % name)
                continue
            f = {"name": name, "endian": None, "magic": None, "pb": 0, "pst": 0, "pa": 0}
            for k, v in ds:
                if k in ("little", "big"):
                    f["endian"] = k
                elif k == "magic":
                    f["magic"] = parse_magic(v)
                elif k == "pad_before":
                    f["pb"] += int_lit(v)
                elif k == "pad_after":
                    f["pa"] += int_lit(v)
                elif k == "pad_size_to":
                    f["pst"] = int_lit(v)
            if min(f["pb"], f["pa"], f["pst"]) < 0:
                raise Unsupported("field `%s`: negative padding" % name)
            for k, v in ds:
                if k == "map":
                    ty = map_read_type(v)
            f["kind"] = parse_type(ty, ds, known, res["fields"])
            tb = known.get(ty.split("::")[-1])
            if tb and tb["kind"] == "enum" and tb.get("endian"):
                f["endian"] = tb["endian"]
            res["fields"].append(f)
    except Unsupported as e:
        res["complete"] = False
        res["reason"] = str(e)
    except Exception as e:  # never crash on source we cannot read
        res["complete"] = False
        res["reason"] = "parser error: %s" % e
    return res


def lean_name(rust):
    rust = re.sub(r"\W+", "_", rust.replace(" ", "")).strip("_")
    return rust[0].lower() + rust[1:]


def emit_item(rust, rel, it):
    ln = lean_name(rust)
    out = []
    if it["kind"] == "alias":
        return "/-- `bitflags struct %s: %s` (%s): read as that integer -/\ndef %sRepr : Prim := .%s" % (rust, it["prim"], rel, ln, it["prim"])
    if it["kind"] == "enum":
        out.append("/-- `enum %s` (%s), `repr = %s`: valid discriminants as bit patterns -/" % (rust, rel, it["repr"]))
        out.append("def %sRepr : Prim := .%s" % (ln, it["repr"]))
        out.append("def %sValid : List Nat := [%s]" % (ln, ", ".join(str(x) for x in it["valid"])))
        return "\n".join(out)
    if not it["complete"]:
        out.append("-- not translated: %s (%s) beyond field %d: %s" % (rust, rel, len(it["fields"]), it["reason"]))
    out.append("/-- `struct %s` (%s)%s -/" % (rust, rel, "" if it["complete"] else " — PREFIX only"))
    e = "none" if it["endian"] is None else "(some .%s)" % it["endian"]
    fl = []
    for f in it["fields"]:
        fe = "none" if f["endian"] is None else "(some .%s)" % f["endian"]
        # the field name is a comment only: it is not part of the compared data
        fl.append('    /- %s -/ .mk "" %s %s %d (%s) %d %d' % (f["name"], fe, lean_magic(f["magic"]), f["pb"], f["kind"], f["pst"], f["pa"]))
    out.append("def %s : Layout :=\n  .mk %s %s [%s] %s" % (
        ln, e, lean_magic(it["magic"]), ("\n" + ",\n".join(fl)) if fl else "", "true" if it["complete"] else "false"))
    return "\n".join(out)


def previous_blocks(module):
    p = os.path.join(ROOT, "lean", "PhysisModel", "Generated", module + ".lean")
    try:
        s = open(p).read()
    except OSError:
        return {}
    return {m.group(1): m.group(2) for m in re.finditer(r"-- @begin (\S+)\n(.*?)\n-- @end \1\n", s, flags=re.S)}


def generate(module, repo, want_json=False):
    spec = SPECS[module]
    prev = previous_blocks(module)
    known, blocks, report = {}, [], []
    cache = {}
    for rel, rust in spec:
        it = None
        try:
            if rel not in cache:
                try:
                    cache[rel] = strip_comments(open(os.path.join(repo, rel)).read())
                except OSError:
                    cache[rel] = ""     # file moved / removed: every item of it is "not found"
            targs = None
            mg = re.fullmatch(r"(\w+)\s*<(.*)>", rust)
            if mg:      # an instantiation `Name<T1, …>` of a generic struct
                targs = [a.strip() for a in split_top(mg.group(2))]
            found = find_item(cache[rel], mg.group(1) if mg else rust)
            if found and targs is not None:
                kind, attrs, body, bracket = found
                if bracket == "generic" and body and len(body[0]) == len(targs):
                    text = body[1]
                    for prm, arg in zip(body[0], targs):
                        text = re.sub(r"\b%s\b" % re.escape(prm), arg, text)
                    found = (kind, attrs, text, "{")
                else:
                    found = (kind, attrs, None, "generic")
            if found:
                kind, attrs, body, bracket = found
                if kind == "bitflags":
                    it = {"kind": "alias", "prim": body}
                elif kind == "enum":
                    try:
                        it = parse_enum(attrs, body or "")
                    except Unsupported as e:
                        it = {"kind": "opaque", "reason": str(e)}
                else:
                    it = parse_struct(attrs, body, bracket, known)
        except Exception as e:
            it = {"kind": "opaque", "reason": "parser error: %s" % e}
        if it is None:
            if rust in prev:
                body = prev[rust]
                if "NOT FOUND" not in body:
                    body = "-- NOT FOUND in the current source (%s): kept from the previous run\n" % rel + body
                blocks.append((rust, body))
                report.append({"item": rust, "file": rel, "status": "not-found-previous-kept"})
            else:
                blocks.append((rust, "-- NOT FOUND in the current source (%s): %s; no previous translation" % (rel, rust)))
                report.append({"item": rust, "file": rel, "status": "not-found"})
            continue
        if it["kind"] == "opaque":
            blocks.append((rust, "-- not translated: %s (%s): %s" % (rust, rel, it["reason"])))
            report.append({"item": rust, "file": rel, "status": "not-translated", "reason": it["reason"]})
            continue
        it["lean"] = lean_name(rust)
        known[rust] = it
        blocks.append((rust, emit_item(rust, rel, it)))
        if it["kind"] == "struct" and not it["complete"]:
            report.append({"item": rust, "file": rel, "status": "prefix", "fields": len(it["fields"]), "reason": it["reason"]})
        else:
            report.append({"item": rust, "file": rel, "status": "translated"})
    if want_json:
        return json.dumps(report, indent=1) + "\n"
    out = "-- GENERATED by lib/binrw2lean.py from the binrw declarations in /repo — do not edit (rewritten by ./check on every run)\n"
    out += "import PhysisModel.Base.Binrw\nnamespace Physis.Generated.%s\nopen Physis.Binrw\n\n" % module
    for rust, body in blocks:
        out += "-- @begin %s\n%s\n-- @end %s\n\n" % (rust, body, rust)
    out += "/-- items that are not (fully) translated: (item, status: reason) -/\ndef notTranslated : List (String × String) := [%s]\n" % ", ".join(
        '("%s", "%s")' % (r["item"], (r["status"] + (": " + r["reason"] if r.get("reason") else "")).replace("\\", "\\\\").replace('"', "'"))
        for r in report if r["status"] != "translated")
    out += "end Physis.Generated.%s\n" % module
    return out


if __name__ == "__main__":
    args = [a for a in sys.argv[1:] if not a.startswith("--")]
    if len(args) != 2 or args[0] not in SPECS:
        sys.stderr.write("usage: binrw2lean.py <%s> <repo> [--json]\n" % "|".join(SPECS))
        sys.exit(1)
    try:
        sys.stdout.write(generate(args[0], args[1], "--json" in sys.argv))
    except Exception as e:
        sys.stderr.write("binrw2lean %s failed: %s\n" % (args[0], e))
        sys.exit(1)
