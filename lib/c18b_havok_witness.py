#!/usr/bin/env python3
"""Builds the directed Havok tag-file witnesses of corpus/C18/hvk-*.case (C18 part `havok`, fixes
C18-70..79).  `python3 lib/c18b_havok_witness.py <name>` prints the case line `sklb <hex>`;
`python3 lib/c18b_havok_witness.py --list` lists the names.  The same constructions are in the generator
(`harness/src/c18_pbc.rs`, `havok_directed`)."""
import struct, sys

def pint(v):
    neg = 1 if v < 0 else 0
    m = -v if v < 0 else v
    b = ((m & 0x3f) << 1) | neg
    m >>= 6
    out = []
    while m:
        out.append(b | 0x80)
        b = m & 0x7f
        m >>= 7
    out.append(b)
    return bytes(out)

def hstr(s):
    s = s.encode() if isinstance(s, str) else s
    return pint(len(s)) + s

def f32(x):
    return struct.pack('<f', x)

def htype(name, parent, members, raw_name=None):
    """members: (name, type bits, class or None); a name that is an int is a back reference"""
    o = pint(2) + (raw_name if raw_name is not None else hstr(name)) + pint(0) + pint(parent) + pint(len(members))
    for n, t, c in members:
        o += pint(n) if isinstance(n, int) else hstr(n)
        o += pint(t)
        if t & 0x20:
            o += pint(3)
        if c is not None:
            o += pint(c) if isinstance(c, int) else hstr(c)
    return o

SIG = struct.pack('<II', 0xCAB00D1E, 0xD011FACE)
HEAD = SIG + pint(1) + pint(3)

def sklb(hk):
    return struct.pack('<IIIIIIIII', 0x736B6C62, 0x31333030, 36, 36, 0, 101, 0, 0, 0) + hk

def std_types(bone_members=None, skel_extra=(), cont_extra=()):
    """types 1 NamedVariant, 2 RootLevelContainer, 3 hkaBone, 4 hkaSkeleton, 5 hkaAnimationContainer"""
    o = htype('hkRootLevelContainerNamedVariant', 0, [('name', 10, None), ('className', 10, None), ('variant', 8, 'hkReferencedObject')])
    o += htype('hkRootLevelContainer', 0, [('namedVariants', 0x19, 'hkRootLevelContainerNamedVariant')])
    o += htype('hkaBone', 0, bone_members or [('name', 10, None), ('lockTranslation', 1, None)])
    o += htype('hkaSkeleton', 0, [('name', 10, None), ('bones', 0x19, 'hkaBone'), ('parentIndices', 0x12, None), ('referencePose', 0x16, None)] + list(skel_extra))
    o += htype('hkaAnimationContainer', 0, [('skeletons', 0x18, 'hkaSkeleton'), ('bindings', 0x18, 'hkaAnimationBinding')] + list(cont_extra))
    return o

def root_objs(skel_ref=3):
    # object 1: root container; object 2: animation container
    o = pint(4) + pint(2) + b'\x01' + pint(1) + b'\x07' + hstr('Merged Animation Container') + hstr('hkaAnimationContainer') + pint(2)
    o += pint(4) + pint(5) + b'\x03' + pint(1) + pint(skel_ref) + pint(0)
    return o

def skel_obj(bones):
    o = pint(4) + pint(4) + b'\x0f' + hstr('skeleton') + pint(bones) + b'\x01'
    for i in range(bones):
        o += hstr('n_bone%d' % i)
    o += pint(bones) + pint(4)
    for i in range(bones):
        o += pint(i - 1)
    o += pint(bones)
    for i in range(bones):
        for k in range(12):
            o += f32(k * 0.25)
    return o

def valid(bones=2):
    return HEAD + std_types() + root_objs() + skel_obj(bones) + pint(7)

import os
NEST = int(os.environ.get('HVK_NEST', 30000))
CHAIN_T = int(os.environ.get('HVK_CHAIN_T', 120000))
CHAIN_O = int(os.environ.get('HVK_CHAIN_O', 100000))
W = {}
def w(name):
    def deco(f):
        W[name] = f
        return f
    return deco

# --- 70: the data ends early (byte_reader read / read_bytes / read_f32_le) ---
@w('eof-read')
def _(): return sklb(valid()[:9])            # inside the FileInfo tag: `read`
@w('eof-read-bytes')
def _():
    v = valid(); i = v.index(b'hkRootLevelContainerNamedVariant')
    return sklb(v[:i + 5])                    # inside a string literal: `read_bytes`
@w('eof-read-f32')
def _(): return sklb(valid()[:-3])           # inside the last pose float: `read_f32_le` (and no FileEnd)
@w('eof-signature')
def _(): return sklb(SIG[:6])
# --- 71: packed integers ---
@w('int-six-bytes')
def _(): return sklb(SIG + pint(1) + bytes([0x86, 0x80, 0x80, 0x80, 0x80, 0x80, 0x00]))
@w('int-neg-min')
def _(): return sklb(SIG + pint(1) + bytes([0x81, 0x80, 0x80, 0x80, 0x10]))   # -(2^31)
# --- 72: tag dispatch ---
@w('bad-signature')
def _(): return sklb(struct.pack('<II', 0xCAB00D1E, 0xD011FACF) + valid()[8:])
@w('tag-unknown')
def _(): return sklb(HEAD + pint(9))
@w('tag-backref')
def _(): return sklb(HEAD + pint(5))
@w('tag-object')
def _(): return sklb(HEAD + pint(3))
@w('version-2')
def _(): return sklb(SIG + pint(1) + pint(2) + valid()[10:])
@w('no-root')
def _(): return sklb(HEAD + pint(7))
# --- 73: remembered indices ---
@w('string-backref-range')
def _(): return sklb(HEAD + pint(2) + pint(-9))
@w('string-backref-min')
def _(): return sklb(HEAD + pint(2) + bytes([0x80, 0x80, 0x80, 0x80, 0x10]))   # i32::MIN without the sign bit
@w('string-utf8')
def _(): return sklb(HEAD + pint(2) + pint(2) + b'\xc3\x28')
@w('type-parent-range')
def _(): return sklb(HEAD + htype('a', 7, []))
@w('type-bits')
def _(): return sklb(HEAD + htype('a', 0, [('m', 0x40, None)]))
@w('type-member-count')
def _(): return sklb(HEAD + pint(2) + hstr('a') + pint(0) + pint(0) + pint(1000) + b'\x00' * 8)
@w('object-type-range')
def _(): return sklb(HEAD + std_types() + pint(4) + pint(77))
@w('object-ref-range')
def _(): return sklb(HEAD + std_types() + root_objs(skel_ref=9) + skel_obj(1) + pint(7))
@w('object-ref-scalar-range')
def _():
    v = HEAD + std_types() + pint(4) + pint(2) + b'\x01' + pint(1) + b'\x07' + hstr('x') + hstr('y') + pint(55) + pint(7)
    return sklb(v)
# --- 74: unimplemented kinds / lengths ---
@w('member-tuple')
def _(): return sklb(HEAD + htype('a', 0, [('t', 0x22, None)]) + pint(4) + pint(1) + b'\x01' + pint(1))
@w('member-vec-scalar')
def _(): return sklb(HEAD + htype('a', 0, [('v', 4, None)]) + pint(4) + pint(1) + b'\x01' + f32(1) * 4)
@w('member-struct-absent')
def _(): return sklb(HEAD + htype('a', 0, [('s', 9, 'a')]) + pint(4) + pint(1) + b'\x00' + pint(7))
@w('array-void')
def _(): return sklb(HEAD + htype('a', 0, [('v', 0x10, None)]) + pint(4) + pint(1) + b'\x01' + pint(0))
@w('array-base-11')
def _(): return sklb(HEAD + htype('a', 0, [('v', 0x1b, None)]) + pint(4) + pint(1) + b'\x01' + pint(0))
@w('array-len-negative')
def _(): return sklb(HEAD + htype('a', 0, [('v', 0x11, None)]) + pint(4) + pint(1) + b'\x01' + pint(-1))
@w('array-len-huge')
def _(): return sklb(HEAD + htype('a', 0, [('v', 0x11, None)]) + pint(4) + pint(1) + b'\x01' + pint(1 << 30))
@w('struct-class-unknown')
def _(): return sklb(HEAD + htype('a', 0, [('v', 0x19, 'nope')]) + pint(4) + pint(1) + b'\x01' + pint(0))
@w('struct-column-tuple')
def _():
    return sklb(HEAD + htype('e', 0, [('t', 0x22, None)]) + htype('a', 0, [('v', 0x19, 'e')]) + pint(4) + pint(2) + b'\x01' + pint(1) + b'\x01')
# --- 75: extraction ---
def with_skel(skel_types_kw, skel):
    return sklb(HEAD + std_types(**skel_types_kw) + root_objs() + skel + pint(7))
@w('extract-no-variant')
def _():
    v = HEAD + std_types() + pint(4) + pint(2) + b'\x01' + pint(1) + b'\x07' + hstr('x') + hstr('hkaOther') + pint(2)
    v += pint(4) + pint(5) + b'\x03' + pint(0) + pint(0) + pint(7)
    return sklb(v)
@w('extract-root-not-container')
def _(): return sklb(HEAD + std_types() + pint(4) + pint(3) + b'\x00' + pint(7))     # root is a hkaBone: get("namedVariants")
@w('extract-no-skeleton')
def _():
    v = HEAD + std_types() + pint(4) + pint(2) + b'\x01' + pint(1) + b'\x07' + hstr('x') + hstr('hkaAnimationContainer') + pint(2)
    v += pint(4) + pint(5) + b'\x03' + pint(0) + pint(0) + pint(7)
    return sklb(v)
@w('extract-bone-name-absent')
def _():
    # bones column `name` absent: HavokObject::get finds no value
    o = pint(4) + pint(4) + b'\x0f' + hstr('skeleton') + pint(1) + b'\x00' + pint(0) + pint(4) + pint(0)
    return sklb(HEAD + std_types() + root_objs() + o + pint(7))
@w('extract-fewer-parents')
def _():
    o = pint(4) + pint(4) + b'\x0f' + hstr('skeleton') + pint(2) + b'\x01' + hstr('a') + hstr('b') + pint(1) + pint(4) + pint(0) + pint(2) + f32(0) * 24
    return sklb(HEAD + std_types() + root_objs() + o + pint(7))
@w('extract-fewer-poses')
def _():
    o = pint(4) + pint(4) + b'\x0f' + hstr('skeleton') + pint(2) + b'\x01' + hstr('a') + hstr('b') + pint(2) + pint(4) + pint(0) + pint(0) + pint(1) + f32(0) * 12
    return sklb(HEAD + std_types() + root_objs() + o + pint(7))
@w('extract-pose-vec4')
def _():
    t = htype('hkRootLevelContainerNamedVariant', 0, [('name', 10, None), ('className', 10, None), ('variant', 8, 'hkReferencedObject')])
    t += htype('hkRootLevelContainer', 0, [('namedVariants', 0x19, 'hkRootLevelContainerNamedVariant')])
    t += htype('hkaBone', 0, [('name', 10, None), ('lockTranslation', 1, None)])
    t += htype('hkaSkeleton', 0, [('name', 10, None), ('bones', 0x19, 'hkaBone'), ('parentIndices', 0x12, None), ('referencePose', 0x14, None)])
    t += htype('hkaAnimationContainer', 0, [('skeletons', 0x18, 'hkaSkeleton'), ('bindings', 0x18, 'hkaAnimationBinding')])
    o = pint(4) + pint(4) + b'\x0f' + hstr('skeleton') + pint(1) + b'\x01' + hstr('a') + pint(1) + pint(4) + pint(0) + pint(1) + f32(0) * 4
    return sklb(HEAD + t + root_objs() + o + pint(7))
@w('extract-skeletons-int')
def _():
    t = htype('hkRootLevelContainerNamedVariant', 0, [('name', 10, None), ('className', 10, None), ('variant', 8, 'hkReferencedObject')])
    t += htype('hkRootLevelContainer', 0, [('namedVariants', 0x19, 'hkRootLevelContainerNamedVariant')])
    t += htype('hkaAnimationContainer', 0, [('skeletons', 2, None), ('bindings', 0x18, 'x')])
    v = HEAD + t + pint(4) + pint(2) + b'\x01' + pint(1) + b'\x07' + hstr('x') + hstr('hkaAnimationContainer') + pint(2)
    v += pint(4) + pint(3) + b'\x03' + pint(5) + pint(0) + pint(7)
    return sklb(v)
def binding_file(blend=1, anim_class='hkaSplineCompressedAnimation', duration_type=3):
    t = std_types()
    t += htype('hkaAnimationBinding', 0, [('transformTrackToBoneIndices', 0x12, None), ('blendHint', 2, None), ('animation', 8, 'hkaAnimation')])
    t += htype(anim_class, 0, [('duration', duration_type, None), ('numberOfTransformTracks', 2, None), ('numFrames', 2, None), ('numBlocks', 2, None),
        ('maxFramesPerBlock', 2, None), ('maskAndQuantizationSize', 2, None), ('blockInverseDuration', 3, None), ('frameDuration', 3, None),
        ('blockOffsets', 0x12, None), ('data', 0x11, None)])
    o = pint(4) + pint(2) + b'\x01' + pint(1) + b'\x07' + hstr('Merged Animation Container') + hstr('hkaAnimationContainer') + pint(2)
    o += pint(4) + pint(5) + b'\x03' + pint(1) + pint(3) + pint(1) + pint(4)
    o += skel_obj(1)
    o += pint(4) + pint(6) + b'\x07' + pint(2) + pint(4) + pint(0) + pint(1) + pint(blend) + pint(5)
    o += pint(4) + pint(7) + b'\xff\x03' + (f32(1.0) if duration_type == 3 else pint(1))
    for v in [2, 3, 1, 256, 8]:
        o += pint(v)
    o += f32(0.5) + f32(0.033) + pint(1) + pint(4) + pint(0) + pint(4) + bytes([9, 8, 7, 6])
    return sklb(HEAD + t + o + pint(7))
@w('binding-valid')
def _(): return binding_file()
@w('binding-blend-hint')
def _(): return binding_file(blend=2)
@w('binding-animation-class')
def _(): return binding_file(anim_class='hkaInterleavedUncompressedAnimation')
@w('binding-duration-int')
def _(): return binding_file(duration_type=2)
# --- 76: struct arrays: nesting and total number of elements ---
@w('struct-nesting-deep')
def _():
    # class `a` has one member: a struct array of `a`; an empty array whose existence bits say
    # "present" 200 000 times in a row: one byte and one stack frame per level
    v = HEAD + htype('a', 0, [('v', 0x19, 'a')]) + pint(4) + pint(1) + b'\x01' + pint(0) + b'\x01' * NEST
    return sklb(v)
def valid_plus(extra_types, extra_objs):
    """the valid two-bone file with more types (index 6..) and more objects behind the skeleton"""
    return HEAD + std_types() + extra_types + root_objs() + skel_obj(2) + extra_objs + pint(7)
def nesting(k):
    # an unrelated object whose struct array nests k levels below the outermost one
    return sklb(valid_plus(htype('a', 0, [('v', 0x19, 'a')]), pint(4) + pint(6) + b'\x01' + pint(0) + b'\x01' * k + b'\x00'))
@w('struct-nesting-32')
def _(): return nesting(32)        # accepted (MAX_ARRAY_DEPTH)
@w('struct-nesting-33')
def _(): return nesting(33)        # rejected
def elements(slack):
    # an unrelated object with an array of L elements of a class with k member-less struct members:
    # L * (1 + k) struct elements; the byte array behind it tunes the size of the tag file to
    # (number of struct elements of the file) + slack
    k, L = 7, 100
    t = htype('e', 0, []) + htype('b', 0, [('m%d' % i, 9, 'e') for i in range(k)]) + htype('a', 0, [('v', 0x19, 'b'), ('pad', 0x11, None)])
    total = 1 + 2 + L * (1 + k)
    for pad in range(0, 4000):
        o = pint(4) + pint(8) + b'\x03' + pint(L) + b'\x7f' + pint(pad) + b'\x00' * pad
        v = valid_plus(t, o)
        if len(v) == total + slack:
            return sklb(v)
    raise Exception('no pad')
@w('struct-elements-exact')
def _(): return elements(0)        # as many struct elements as bytes: accepted
@w('struct-elements-one-more')
def _(): return elements(-1)       # one byte fewer: rejected
@w('struct-elements-multiplied')
def _():
    # class `e` has no members; class `b` has 200 struct members of class `e`; one array of 1000 `b`s:
    # 200 columns x 1000 elements without a byte of member data (the byte array behind it only
    # satisfies the check of the array length against the remaining input)
    t = htype('e', 0, [])
    t += pint(2) + hstr('b') + pint(0) + pint(0) + pint(200) + hstr('m') + pint(9) + pint(-2)
    for i in range(199):
        t += pint(-4) + pint(9) + pint(-2)
    t += htype('a', 0, [('v', 0x19, 'b'), ('pad', 0x11, None)])
    o = pint(4) + pint(3) + b'\x03' + pint(1000) + b'\xff' * 25 + pint(1000) + b'\x00' * 1000
    return sklb(HEAD + t + o + pint(7))
# --- 77 / 78: teardown ---
@w('type-chain-deep')
def _():
    v = HEAD
    n = CHAIN_T
    v += htype('a', 0, [])
    body = b''.join(pint(2) + pint(-2) + pint(0) + pint(i) + pint(0) for i in range(1, n))
    # one object of the last type: `members()` walks the whole chain
    return sklb(v + body + pint(4) + pint(n) + pint(7))
@w('object-chain-backward')
def _():
    # object k refers to object k-1: the last one owns the whole chain
    n = CHAIN_O
    v = HEAD + htype('a', 0, [('p', 8, 'a')])
    v += pint(4) + pint(1) + b'\x00'
    body = b''.join(pint(4) + pint(1) + b'\x01' + pint(k) for k in range(1, n))
    return sklb(v + body + pint(7))

if __name__ == '__main__':
    if sys.argv[1] == '--list':
        print('\n'.join(W))
    else:
        print('sklb ' + W[sys.argv[1]]().hex())
