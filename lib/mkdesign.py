#!/usr/bin/env python3
"""Regenerates the data-driven parts of DESIGN.md §13: the seeds table (§13.3), the trusted-base
list (§13.4) and the defects disposition (§13.5) from seeded/*/meta.json, props/*.json and
known_findings.jsonl.  Hand-written text around them is preserved."""
import json, glob, os, re
ROOT = os.path.dirname(os.path.dirname(os.path.abspath(__file__)))
p = os.path.join(ROOT, "DESIGN.md")
s = open(p).read()
# --- seeds table
rows = []
det = miss = 0
for d in sorted(glob.glob(os.path.join(ROOT, "seeded", "*"))):
    m = json.load(open(os.path.join(d, "meta.json")))
    dt = m.get("detected_by_check", "")
    if dt.startswith("yes"):
        det += 1
    else:
        miss += 1
    rows.append("| %s | %s | %s | %s |" % (os.path.basename(d), m.get("summary", "").replace("|", "/").replace("\n", " ")[:170],
                m.get("needs", "").replace("|", "/").replace("\n", " ")[:170], dt.replace("|", "/")[:150]))
a = s.index("| seed | change | needs | quick check |")
b = s.index("Strengthenings made because a seed was missed at first")
s = s[:a] + "| seed | change | needs | quick check |\n|---|---|---|---|\n" + "\n".join(rows) + "\n\n(%d seeded changes, %d detected by the quick tier of their property's check, %d not.)\n\n" % (det + miss, det, miss) + s[b:]
# --- §13.4
sec = "\n### §13.4 Trusted base as built (per property, from `props/<ID>.json`; also repeated in every evidence file)\n\nCommon to all: the Lean 4.33.0 kernel (thorough tier: `leanchecker` re-check); axioms `propext`, `Classical.choice`, `Quot.sound` and the `*._native.bv_decide.ax_*` axioms of the bit-vector lemmas (listed by name per theorem in `evidence/<ID>.json` → `coverage.axioms`; every `bv_decide` call runs with an explicit 300 s SAT budget so that a loaded machine does not turn a proof into a timeout); no `sorry`, `admit`, added `axiom`, `native_decide`, `implemented_by`, `unsafe` (audited on every run); the hand-written models are tied to the code only on the generated cases (exhaustively on the T2 domains); `Spec/` definitions stand for the external standards they name.\n\n"
for f in sorted(glob.glob(os.path.join(ROOT, "props", "C*.json"))):
    c = json.load(open(f)); pid = os.path.basename(f)[:-5]
    items = c.get("assumptions", []) + c.get("trusted_base", [])
    if items:
        sec += "* **%s** — " % pid + "; ".join(x.strip().rstrip(".").replace("\n", " ") for x in items) + ".\n"
ks = [json.loads(l) for l in open(os.path.join(ROOT, "known_findings.jsonl")) if l.strip() and not l.startswith("#")]
fixed = [k for k in ks if k["status"] == "fixed"]; openf = [k for k in ks if k["status"] == "open"]
sec += "\n### §13.5 Defects of Physis: final disposition (generated from `known_findings.jsonl`)\n\n%d genuine defects were repaired by one `fix:` commit each in `/repo` (the unedited test-suite passes after every one; `git -C /repo log --grep '^fix:'`), %d are recorded as open findings (the check prints `KNOWN-FINDING` while they reproduce and exits 0; a different failure of the same property is still a VIOLATION). Every entry has a witness case in `corpus/<ID>/` that is replayed first on every run: a `fixed` witness must pass, so the violation is reported again if the defect returns.\n\n**Open findings**\n\n| property | key | what fails |\n|---|---|---|\n" % (len(fixed), len(openf))
for k in openf:
    sec += "| %s | `%s` | %s |\n" % (k["property"], k["key"], k["what"].replace("|", "/")[:330])
sec += "\n**Repaired** (`fixed: property=<id> <commit> <what failed>` lines are in `known_findings.jsonl`)\n\n| property | commit | what failed |\n|---|---|---|\n"
for k in fixed:
    sec += "| %s | %s | %s |\n" % (k["property"], k.get("commit"), k["what"].replace("|", "/")[:200])
s = s[:s.index("\n### §13.4")].rstrip("\n") + "\n" + sec
open(p, "w").write(s)
print("seeds", det, miss, "fixed", len(fixed), "open", len(openf))
