#!/usr/bin/env python3
"""Regenerates MANIFEST.json from props/*.json (one file per property, key "manifest")."""
import json, os, sys
ROOT = os.path.dirname(os.path.dirname(os.path.abspath(__file__)))
ids = [json.loads(l)["id"] for l in open(os.path.join(ROOT, "properties.jsonl")) if l.strip()]
checks, na = [], []
for pid in ids:
    p = os.path.join(ROOT, "props", pid + ".json")
    cfg = json.load(open(p)) if os.path.exists(p) else {}
    m = cfg.get("manifest")
    if not m:
        na.append({"property_id": pid, "reason": cfg.get("not_applicable", "check not built yet in this revision (work in progress; see DESIGN.md §11 build order) — not a claim that the technique cannot apply")})
        continue
    checks.append({
        "property_id": pid,
        "quick_cmd": "./check %s --tier quick" % pid,
        "thorough_cmd": "./check %s --tier thorough" % pid,
        "evidence_file": "evidence/%s.json" % pid,
        "replay_cmd_template": "./check %s --replay {path}" % pid,
        "engine": "lean4-proof+correspondence",
        "level_claimed": {"category": "proof", "text": m["text"], "design_ref": m.get("design_ref", "")},
        "level_note": m["note"],
        "technique": m.get("technique", "Lean 4 theorems about an executable model + differential correspondence of the model with the real code"),
    })
man = {
    "version": 1,
    "setup_cmd": "./setup.sh",
    "hooks": {
        "guard": "physis_verif",
        "enable": "RUSTFLAGS=--cfg physis_verif (set in harness/.cargo/config.toml); no source hooks exist at present — every anchored mechanism is observable through the public API",
        "baseline_off_cmd": "cd /repo && cargo test --workspace --no-fail-fast --offline",
        "source_commits": [],
        "add_only": True,
    },
    "engines": [{
        "name": "lean4-proof+correspondence", "path": "check",
        "serves_properties": [c["property_id"] for c in checks],
        "kind_free_text": "Lean 4 (kernel-checked theorems about hand-written executable models, lean/PhysisModel) tied to /repo on every run by regenerated tables (lib/extract.py, harness dump) and a differential correspondence check (harness/ Rust crate calling the real code; lean_exe physis-model)",
    }],
    "checks": checks,
    "not_applicable": na,
    "notes": "See DESIGN.md. known_findings.jsonl lists recorded and fixed defects.",
}
json.dump(man, open(os.path.join(ROOT, "MANIFEST.json"), "w"), indent=1)
print("claimed:", [c["property_id"] for c in checks])
