#!/bin/bash
# lib/coverage.sh [ID…]  — developer tool (not a check): which lines of /repo/src does the
# correspondence of each property execute?  Re-runs the `run` stage of the latest ./check run
# (work/<ID>/cases.N + model.N) under an -C instrument-coverage build of the harness (nightly
# toolchain: it ships llvm-profdata / llvm-cov) and prints, per property, the uncovered lines of
# the files the property is anchored in.  Output: work/cov/<ID>.txt (annotated source),
# work/cov/<ID>.summary.  A line never executed is a line whose mutation no case can notice.
cd "$(dirname "$0")/.."
BIN=$(ls -d ~/.rustup/toolchains/nightly-x86_64-unknown-linux-gnu/lib/rustlib/*/bin)
T=work/covtarget
( cd harness && RUSTFLAGS="--cfg physis_verif -C instrument-coverage" cargo +nightly build --offline --target-dir ../$T 2>&1 | tail -1 )
H=$T/debug/harness
ids=${@:-$(ls props | sed 's/.json//')}
for id in $ids; do
  rm -f work/cov/$id-*.profraw
  for c in work/$id/cases.[0-9]*; do
    i=${c##*.}
    [ -f work/$id/model.$i ] || continue
    LLVM_PROFILE_FILE=work/cov/$id-$i-%p.profraw VERIF_FLUSH=1 timeout 900 $H $id run $c work/$id/model.$i > /dev/null 2>&1 &
  done
  wait
  $BIN/llvm-profdata merge -sparse work/cov/$id-*.profraw -o work/cov/$id.profdata 2>/dev/null || { echo "$id: no profile"; continue; }
  rm -f work/cov/$id-*.profraw
  files=$(python3 -c "
import json
for l in open('properties.jsonl'):
    p=json.loads(l)
    if p['id']=='$id': print(' '.join('/repo/'+f for f in p['anchors']['files']))")
  $BIN/llvm-cov report $H -instr-profile=work/cov/$id.profdata $files 2>/dev/null > work/cov/$id.summary
  $BIN/llvm-cov show $H -instr-profile=work/cov/$id.profdata $files --show-line-counts-or-regions 2>/dev/null > work/cov/$id.txt
  echo "== $id"; cat work/cov/$id.summary | awk 'NR<=2 || /TOTAL|\.rs/' | cut -c1-160
done
