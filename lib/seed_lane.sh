#!/bin/bash
# lib/seed_lane.sh <srcroot> <tag> [ID...]   developer tool, not a check
# Imports <srcroot>/<ID>/out/m*.{patch.diff,_demo.rs,meta.json} as seeded/<ID>-<tag>m<k>/ and then
# confirms and tests them ONE AFTER THE OTHER in a lane = a copy of /verif with its own builds and
# its own scratch worktrees of /repo, so that the lead can keep running checks in /verif meanwhile
# (two checks of one property in one tree share work/<ID>; two seed queues share the scratch
# worktrees: both mistakes were made once, see DESIGN §13.3 round 9).  Results come back as
# seeded/*/meta.json (detected_by_check, confirmed_by_lead).
set -u
src=$1; tag=$2; shift 2
ids=${*:-C01 C02 C03 C04 C05 C06 C07 C08 C09 C10 C11 C12 C13 C14 C15 C16 C17 C18}
cd "$(dirname "$0")/.."
ROOT=$(pwd)
lib/import_seeds.sh "$src" "$tag" $ids
LANE=${LANE:-/tmp/seedlane}
mkdir -p "$LANE"
rsync -a --delete --exclude .git --exclude work --exclude replays "$ROOT"/ "$LANE/verif/"
mkdir -p "$LANE/verif/work"
cd "$LANE/verif"
for id in $ids; do
  for s in seeded/$id-${tag}m*; do
    [ -d "$s" ] && lib/verify_seed.sh "$s" "$LANE/seedverify" 2>&1 | tail -1
  done
  SEED_WT="$LANE/seedtest" python3 lib/test_seeds.py "$id-$tag" 2>&1 | grep -E "^$id-$tag" | cut -c1-300
done
for d in "$LANE"/verif/seeded/*-${tag}m*; do cp "$d/meta.json" "$ROOT/seeded/$(basename "$d")/meta.json"; done
git -C /repo worktree remove --force "$LANE/seedverify" 2>/dev/null
git -C /repo worktree remove --force "$LANE/seedtest" 2>/dev/null
rm -rf "$LANE"
